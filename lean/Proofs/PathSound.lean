/-
  Proofs/PathSound.lean — soundness of the path search `_find_path_recursive` /
  `_reduce_dimension` (Model/Convert.lean: `findPathRec`, `pathLoop`, `reduceDimension`, `powHop`).

  Setting: an assignment σ of non-zero sizes to base units; `unitSz σ s u` is the size of an
  interned unit (prefix value × ∏ σ(base)^exponent).  The conversion graph AGREES with σ when
  every stored ratio `_ratios[a][b] = m` satisfies `m · size b = size a` (that is what
  `1 a = m b` means).  Then, for every state, every graph, every start / stop unit and every
  `visited` set, whatever non-empty hop list the search returns multiplies to
  `size start / size stop` — through any number of recursive calls, dimension reductions
  (`root` by the gcd of the exponents) and re-raisings of the hops (`** exponent`).
  The search is also a frame: it only interns units; the graph itself is never written.
-/
import Proofs.SizeOf
import Proofs.StepAll
import Proofs.Monad
import Proofs.PlanVal
import Proofs.ConvertSelf

namespace Measured
open St

variable {σ : UId → Rat}

/-! ### sizes under extension and under `root` -/

theorem Ext.unitSz {s s' : St} (h : Ext s s') {u : UId} (hu : u < s.units.length) :
    unitSz σ s' u = unitSz σ s u := by
  unfold Measured.unitSz
  rw [(h.same u hu).1, (h.same u hu).2.1]

theorem sizeOf_fdiv {one : UId} (h1 : σ one = 1) {n : Int} (fs : Factors)
    (hdiv : ∀ f ∈ fs, f.1 ≠ one → f.2 % n = 0) :
    sizeOf σ (fs.map (fun f => (f.1, Int.fdiv f.2 n))) ^ n = sizeOf σ fs := by
  induction fs with
  | nil => simp
  | cons f rest ih =>
    have hr := ih (fun g hg => hdiv g (List.mem_cons_of_mem _ hg))
    simp only [List.map_cons, sizeOf_cons, mul_zpow, hr]
    congr 1
    by_cases hf : f.1 = one
    · rw [hf, h1]; simp
    · have hd := Int.dvd_of_emod_eq_zero (hdiv f List.mem_cons_self hf)
      rw [← zpow_mul, Int.fdiv_eq_ediv_of_dvd hd, Int.ediv_mul_cancel hd]

/-- (size of the n-th root)ⁿ = size. -/
theorem rootUnit_size {s : St} (h1 : σ s.one = 1) (hc : Canon s) {a i : Nat} (ha : a < s.units.length)
    {n : Int} (hn : n ≠ 0) (hr : (s.rootUnit a n).2 = .ok i) :
    unitSz σ (s.rootUnit a n).1 i ^ n = unitSz σ s a := by
  have hn0 : (n == 0) = false := by simpa using hn
  cases hroot : (s.unit! a).dim.root n with
  | error e => simp [rootUnit, hn0, hroot] at hr
  | ok d =>
    cases hp : (s.unit! a).pfx.root n with
    | error e => simp [rootUnit, hn0, hroot, hp] at hr
    | ok p =>
      by_cases hall : ((s.unit! a).factors.any (fun f => f.1 != s.one && f.2 % n != 0)) = true
      · simp [rootUnit, hn0, hroot, hp, hall] at hr
      · have hres : s.rootUnit a n = ((s.newUnit p (simplify s.one ((s.unit! a).factors.map (fun f => (f.1, Int.fdiv f.2 n)))) d).1,
            .ok (s.newUnit p (simplify s.one ((s.unit! a).factors.map (fun f => (f.1, Int.fdiv f.2 n)))) d).2) := by
          simp [rootUnit, hn0, hroot, hp, hall]
        rw [hres] at hr ⊢
        simp only at hr ⊢
        injection hr with hr; subst hr
        obtain ⟨k1, k2⟩ := newUnit_key s p (simplify s.one ((s.unit! a).factors.map (fun f => (f.1, Int.fdiv f.2 n)))) d
        unfold Measured.unitSz
        rw [k1, sizeOf_perm k2, sizeOf_simplify h1, mul_zpow, Pfx.val_root (canon_pfx hc ha) hn hp]
        congr 1
        apply sizeOf_fdiv h1
        intro f hf hne
        have := hall
        simp only [List.any_eq_true, not_exists, not_and, Bool.and_eq_true, bne_iff_ne, ne_eq] at this
        have h2 := this f hf
        by_contra hcon
        exact h2 hne hcon

theorem gcd_foldl_zero (l : List Int) (g : Nat) (h : l.foldl (fun g e => Nat.gcd g e.natAbs) g = 0) :
    g = 0 ∧ ∀ e ∈ l, e = 0 := by
  induction l generalizing g with
  | nil => exact ⟨h, by simp⟩
  | cons x rest ih =>
    simp only [List.foldl_cons] at h
    obtain ⟨h0, hr⟩ := ih _ h
    have hg := Nat.eq_zero_of_gcd_eq_zero_left h0
    have hx := Nat.eq_zero_of_gcd_eq_zero_right h0
    refine ⟨hg, ?_⟩
    intro e he
    rcases List.mem_cons.1 he with rfl | he
    · exact Int.natAbs_eq_zero.1 hx
    · exact hr e he

theorem gcdAll_ne_zero {d : Dim} (h : d.isNumber = false) : ((d.gcdAll : Nat) : Int) ≠ 0 := by
  intro h0
  have h0' : d.gcdAll = 0 := by exact_mod_cast h0
  obtain ⟨_, hall⟩ := gcd_foldl_zero d 0 h0'
  have : d.isNumber = true := by
    unfold Dim.isNumber
    simp only [List.all_eq_true, beq_iff_eq]
    exact hall
  rw [this] at h; cases h

/-! ### the invariant and the frame -/

/-- The conversion graph agrees with the size assignment σ. -/
structure GraphOK (σ : UId → Rat) (c : Conv Rat) : Prop where
  canon : Canon c.st
  inv   : Inv c.st
  reg   : Reg c.st
  one   : σ c.st.one = 1
  edges : ∀ a b m, (b, m) ∈ c.ratios.row a →
    a < c.st.units.length ∧ b < c.st.units.length ∧ m.val * unitSz σ c.st b = unitSz σ c.st a
  /-- graph nodes carry no prefix (`equate` strips both sides) -/
  nodes : ∀ a b m, (b, m) ∈ c.ratios.row a →
    (c.st.unit! a).pfx = Pfx.identity ∧ (c.st.unit! b).pfx = Pfx.identity

/-- The search only interns units. -/
structure CFrame (c c' : Conv Rat) : Prop where
  ext     : Ext c.st c'.st
  ratios  : c'.ratios = c.ratios
  offsets : c'.offsets = c.offsets
  asserts : c'.asserts = c.asserts

theorem CFrame.refl (c : Conv Rat) : CFrame c c := ⟨Ext.refl _, rfl, rfl, rfl⟩

theorem CFrame.trans {a b c : Conv Rat} (h1 : CFrame a b) (h2 : CFrame b c) : CFrame a c :=
  ⟨h1.ext.trans h2.ext, h2.ratios.trans h1.ratios, h2.offsets.trans h1.offsets, h2.asserts.trans h1.asserts⟩

theorem CFrame.sz {c c' : Conv Rat} (h : CFrame c c') {u : UId} (hu : u < c.st.units.length) :
    unitSz σ c'.st u = unitSz σ c.st u := h.ext.unitSz hu

theorem CFrame.pfx {c c' : Conv Rat} (h : CFrame c c') {u : UId} (hu : u < c.st.units.length) :
    (c'.st.unit! u).pfx = (c.st.unit! u).pfx := (h.ext.same u hu).1

theorem CFrame.lt {c c' : Conv Rat} (h : CFrame c c') {u : UId} (hu : u < c.st.units.length) :
    u < c'.st.units.length := Nat.lt_of_lt_of_le hu h.ext.len

theorem GraphOK.frame {c c' : Conv Rat} (hg : GraphOK σ c) (hf : CFrame c c') (hc : Canon c'.st) (hi : Inv c'.st)
    (hr : Reg c'.st) : GraphOK σ c' := by
  refine ⟨hc, hi, hr, by rw [hf.ext.one]; exact hg.one, ?_, ?_⟩
  · intro a b m hm
    rw [hf.ratios] at hm
    obtain ⟨ha, hb, hv⟩ := hg.edges a b m hm
    exact ⟨hf.lt ha, hf.lt hb, by rw [hf.sz ha, hf.sz hb]; exact hv⟩
  · intro a b m hm
    rw [hf.ratios] at hm
    obtain ⟨ha, hb, _⟩ := hg.edges a b m hm
    rw [hf.pfx ha, hf.pfx hb]
    exact hg.nodes a b m hm

/-- Changing only the intern table by an operation that extends it. -/
theorem frame_setSt (c : Conv Rat) {s' : St} (h : Ext c.st s') : CFrame c { c with st := s' } :=
  ⟨h, rfl, rfl, rfl⟩

/-! ### running the monad: successful binds -/

theorem exec_bind_ok {β γ} {m : CM Rat β} {f : β → CM Rat γ} {c c'' : Conv Rat} {r : γ}
    (h : CM.exec (m >>= f) c = (.ok r, c'')) :
    ∃ a c', CM.exec m c = (.ok a, c') ∧ CM.exec (f a) c' = (.ok r, c'') := by
  rw [exec_bind] at h
  cases hm : CM.exec m c with
  | mk x c' =>
    cases x with
    | error e => rw [hm] at h; simp at h
    | ok a => rw [hm] at h; exact ⟨a, c', rfl, h⟩

theorem exec_getThe' (c : Conv Rat) : CM.exec (getThe (Conv Rat) : CM Rat (Conv Rat)) c = (.ok c, c) := rfl

theorem exec_cassert_ok {b : Bool} {c c' : Conv Rat} {u : Unit}
    (h : CM.exec (cassert b : CM Rat Unit) c = (.ok u, c')) : c' = c := by
  unfold cassert at h
  obtain ⟨c0, c1, h1, h2⟩ := exec_bind_ok h
  rw [exec_getThe'] at h1
  simp only [Prod.mk.injEq, Except.ok.injEq] at h1
  obtain ⟨rfl, rfl⟩ := h1
  split at h2
  · rw [exec_throw] at h2; simp at h2
  · rw [exec_pure] at h2; simp only [Prod.mk.injEq] at h2; exact h2.2.symm

def pathScale (hops : List (Hop Rat)) : Rat := (hops.map (fun h => h.scale.val)).prod

@[simp] theorem pathScale_nil : pathScale [] = 1 := rfl
@[simp] theorem pathScale_cons (h : Hop Rat) (t : List (Hop Rat)) :
    pathScale (h :: t) = h.scale.val * pathScale t := by simp [pathScale]

/-! ### `powHop` and its `mapM` -/

theorem powHop_ok {c c' : Conv Rat} {h r : Hop Rat} {e : Int} (hg : GraphOK σ c)
    (hu : h.unit < c.st.units.length) (hx : CM.exec (powHop h e) c = (.ok r, c')) :
    GraphOK σ c' ∧ CFrame c c' ∧ r.scale.val = h.scale.val ^ e ∧ r.unit < c'.st.units.length ∧
      r.offset.val = h.offset.val ^ e := by
  unfold powHop at hx
  obtain ⟨sc, c1, h1, hx⟩ := exec_bind_ok hx
  rw [exec_liftE] at h1
  simp only [Prod.mk.injEq] at h1
  obtain ⟨h1, rfl⟩ := h1
  obtain ⟨off, c2, h2, hx⟩ := exec_bind_ok hx
  rw [exec_liftE] at h2
  simp only [Prod.mk.injEq] at h2
  obtain ⟨h2, rfl⟩ := h2
  obtain ⟨u, c3, h3, hx⟩ := exec_bind_ok hx
  rw [exec_liftSt] at h3
  simp only [Prod.mk.injEq, Except.ok.injEq] at h3
  obtain ⟨rfl, rfl⟩ := h3
  rw [exec_pure] at hx
  simp only [Prod.mk.injEq, Except.ok.injEq] at hx
  obtain ⟨rfl, rfl⟩ := hx
  have hf : CFrame c { c with st := (c.st.powUnit h.unit e).1 } := frame_setSt c (powUnit_ext _ _ _)
  exact ⟨hg.frame hf (powUnit_canon hg.canon hu e) (powUnit_inv hg.inv hu e) (powUnit_reg hg.reg _ e), hf, val_powInt h1,
    powUnit_lt _ _ _, val_powInt h2⟩

theorem mapM_powHop_ok (e : Int) : ∀ (hs : List (Hop Rat)) (c c' : Conv Rat) (r : List (Hop Rat)),
    GraphOK σ c → (∀ h ∈ hs, h.unit < c.st.units.length) →
    CM.exec (hs.mapM (fun h => powHop h e)) c = (.ok r, c') →
    GraphOK σ c' ∧ CFrame c c' ∧ (∀ h ∈ r, h.unit < c'.st.units.length) ∧
      pathScale r = pathScale hs ^ e ∧ r.length = hs.length ∧
      (e ≠ 0 → (∀ h ∈ hs, h.offset.val = 0) → ∀ h ∈ r, h.offset.val = 0) := by
  intro hs
  induction hs with
  | nil =>
    intro c c' r hg _ hx
    simp only [List.mapM_nil, exec_pure, Prod.mk.injEq, Except.ok.injEq] at hx
    obtain ⟨rfl, rfl⟩ := hx
    exact ⟨hg, CFrame.refl _, by simp, by simp, rfl, by simp⟩
  | cons h t ih =>
    intro c c' r hg hv hx
    simp only [List.mapM_cons] at hx
    obtain ⟨h', c1, h1, hx⟩ := exec_bind_ok hx
    obtain ⟨t', c2, h2, hx⟩ := exec_bind_ok hx
    rw [exec_pure] at hx
    simp only [Prod.mk.injEq, Except.ok.injEq] at hx
    obtain ⟨rfl, rfl⟩ := hx
    obtain ⟨g1, f1, s1, u1, o1⟩ := powHop_ok hg (hv h List.mem_cons_self) h1
    obtain ⟨g2, f2, u2, s2, l2, o2⟩ := ih c1 c2 t' g1 (fun x hx => f1.lt (hv x (List.mem_cons_of_mem _ hx))) h2
    refine ⟨g2, f1.trans f2, ?_, ?_, by simp [l2], ?_⟩
    · intro x hx
      rcases List.mem_cons.1 hx with rfl | hx
      · exact f2.lt u1
      · exact u2 x hx
    · simp only [pathScale_cons, s1, s2, mul_zpow]
    · intro he hz x hx
      rcases List.mem_cons.1 hx with rfl | hx
      · rw [o1, hz h List.mem_cons_self, zero_zpow e he]
      · exact o2 he (fun y hy => hz y (List.mem_cons_of_mem _ hy)) x hx

/-! ### `_reduce_dimension` -/

theorem Pfx.root_identity {a : Pfx} (ha : a.Normal) {n : Int} (hn : n ≠ 0) (h : Pfx.root a n = .ok Pfx.identity) :
    a = Pfx.identity := by
  unfold Pfx.root at h
  have hn0 : (n == 0) = false := by simpa using hn
  simp only [hn0, Bool.false_eq_true, ↓reduceIte] at h
  split at h
  · cases h
  · next hdiv =>
    injection h with h
    have hmod : a.exp % n = 0 := by simpa using hdiv
    have hd := Int.dvd_of_emod_eq_zero hmod
    unfold Pfx.new at h
    split at h
    · next hc =>
      have h0 : a.exp = 0 := by
        have := hc.2
        rw [Int.fdiv_eq_ediv_of_dvd hd] at this
        have h2 := Int.ediv_mul_cancel hd
        rw [this] at h2
        simpa using h2.symm
      exact Pfx.eq_identity_of_base ha (ha.2 h0)
    · have hb : a.base = 0 := by
        have := congrArg Pfx.base h
        simpa [Pfx.identity] using this
      exact Pfx.eq_identity_of_base ha hb

theorem rootStep {c : Conv Rat} (hg : GraphOK σ c) {a : UId} (ha : a < c.st.units.length) (n : Int) :
    GraphOK σ { c with st := (c.st.rootUnit a n).1 } ∧ CFrame c { c with st := (c.st.rootUnit a n).1 } := by
  have hf : CFrame c { c with st := (c.st.rootUnit a n).1 } := frame_setSt c (rootUnit_ext _ _ _)
  exact ⟨hg.frame hf (rootUnit_canon hg.canon ha n) (rootUnit_inv hg.inv ha n) (rootUnit_reg hg.reg a n), hf⟩

theorem rootUnit_pfx_identity {s : St} (hc : Canon s) {a i : Nat} (ha : a < s.units.length) {n : Int} (hn : n ≠ 0)
    (hr : (s.rootUnit a n).2 = .ok i) (hid : ((s.rootUnit a n).1.unit! i).pfx = Pfx.identity) :
    (s.unit! a).pfx = Pfx.identity := by
  have hk := (rootUnit_key hc ha hn hr).1
  rw [hid] at hk
  exact Pfx.root_identity (canon_pfx hc ha) hn hk

theorem reduceDimension_ok {c c' : Conv Rat} {start stop a b : UId} {e : Int} (hg : GraphOK σ c)
    (hs : start < c.st.units.length) (ht : stop < c.st.units.length)
    (hx : CM.exec (reduceDimension start stop) c = (.ok (e, a, b), c')) :
    GraphOK σ c' ∧ CFrame c c' ∧ a < c'.st.units.length ∧ b < c'.st.units.length ∧
      unitSz σ c'.st a ^ e = unitSz σ c.st start ∧ unitSz σ c'.st b ^ e = unitSz σ c.st stop ∧ e ≠ 0 ∧
      ((c'.st.unit! a).pfx = Pfx.identity → (c.st.unit! start).pfx = Pfx.identity) ∧
      ((c'.st.unit! b).pfx = Pfx.identity → (c.st.unit! stop).pfx = Pfx.identity) := by
  unfold reduceDimension at hx
  obtain ⟨s0, c0, h0, hx⟩ := exec_bind_ok hx
  rw [exec_getSt] at h0
  simp only [Prod.mk.injEq, Except.ok.injEq] at h0
  obtain ⟨rfl, rfl⟩ := h0
  obtain ⟨u, c1, h1, hx⟩ := exec_bind_ok hx
  have := exec_cassert_ok h1
  subst this
  by_cases hnum : (c1.st.dimOfUnit start).isNumber = true
  · simp only [hnum, ↓reduceIte] at hx
    rw [exec_pure] at hx
    simp only [Prod.mk.injEq, Except.ok.injEq] at hx
    obtain ⟨⟨rfl, rfl, rfl⟩, rfl⟩ := hx
    exact ⟨hg, CFrame.refl _, hs, ht, by simp, by simp, by decide, id, id⟩
  · have hnum' : (c1.st.dimOfUnit start).isNumber = false := by simpa using hnum
    simp only [hnum', Bool.false_eq_true, ↓reduceIte] at hx
    have hgne := gcdAll_ne_zero hnum'
    rw [exec_tryCatch] at hx
    -- the two roots
    rw [exec_bind, exec_bind, exec_liftStE] at hx
    obtain ⟨g1, f1⟩ := rootStep hg hs ((c1.st.dimOfUnit start).gcdAll : Int)
    cases hr1 : (c1.st.rootUnit start ((c1.st.dimOfUnit start).gcdAll : Int)).2 with
    | error e1 =>
      simp only [hr1] at hx
      by_cases hfr : (e1 == Exc.fractional) = true
      · simp only [hfr, ↓reduceIte, exec_pure, Prod.mk.injEq, Except.ok.injEq] at hx
        obtain ⟨⟨rfl, rfl, rfl⟩, rfl⟩ := hx
        exact ⟨g1, f1, f1.lt hs, f1.lt ht, by simp [f1.sz hs], by simp [f1.sz ht], by decide,
          by rw [f1.pfx hs]; exact id, by rw [f1.pfx ht]; exact id⟩
      · simp only [hfr, Bool.false_eq_true, ↓reduceIte, exec_throw] at hx
        simp at hx
    | ok a1 =>
      simp only [hr1] at hx
      rw [exec_bind, exec_liftStE] at hx
      have hs1 : stop < ({ c1 with st := (c1.st.rootUnit start ((c1.st.dimOfUnit start).gcdAll : Int)).1 } : Conv Rat).st.units.length :=
        f1.lt ht
      obtain ⟨g2, f2⟩ := rootStep g1 hs1 ((c1.st.dimOfUnit start).gcdAll : Int)
      have ha1 := rootUnit_lt hg.inv.1 start _ hr1
      have hz1 := rootUnit_size hg.one hg.canon hs hgne hr1
      have hp1 := rootUnit_pfx_identity hg.canon hs hgne hr1
      cases hr2 : (({ c1 with st := (c1.st.rootUnit start ((c1.st.dimOfUnit start).gcdAll : Int)).1 } : Conv Rat).st.rootUnit stop
          ((c1.st.dimOfUnit start).gcdAll : Int)).2 with
      | error e2 =>
        simp only [hr2] at hx
        by_cases hfr : (e2 == Exc.fractional) = true
        · simp only [hfr, ↓reduceIte, exec_pure, Prod.mk.injEq, Except.ok.injEq] at hx
          obtain ⟨⟨rfl, rfl, rfl⟩, rfl⟩ := hx
          have f12 := f1.trans f2
          exact ⟨g2, f12, f12.lt hs, f12.lt ht, by simp [f12.sz hs], by simp [f12.sz ht], by decide,
            by rw [f12.pfx hs]; exact id, by rw [f12.pfx ht]; exact id⟩
        · simp only [hfr, Bool.false_eq_true, ↓reduceIte, exec_throw] at hx
          simp at hx
      | ok b1 =>
        simp only [hr2, exec_pure, Prod.mk.injEq, Except.ok.injEq] at hx
        obtain ⟨⟨rfl, rfl, rfl⟩, rfl⟩ := hx
        have hb1 := rootUnit_lt g1.inv.1 stop _ hr2
        have hz2 := rootUnit_size g1.one g1.canon hs1 hgne hr2
        have hp2 := rootUnit_pfx_identity g1.canon hs1 hgne hr2
        refine ⟨g2, f1.trans f2, f2.lt ha1, hb1, ?_, ?_, hgne, ?_, ?_⟩
        · rw [f2.sz ha1]; exact hz1
        · rw [hz2]; exact f1.sz ht
        · rw [f2.pfx ha1]; exact hp1
        · intro h; have := hp2 h; rw [f1.pfx ht] at this; exact this

/-! ### the search -/

/-- What a (recursive) path search promises about a successful return. -/
def PathSpec (σ : UId → Rat) (c : Conv Rat) (start stop : UId) (p : List (Hop Rat)) (c' : Conv Rat) : Prop :=
  GraphOK σ c' ∧ CFrame c c' ∧ (∀ h ∈ p, h.unit < c'.st.units.length) ∧
    (p ≠ [] → pathScale p * unitSz σ c.st stop = unitSz σ c.st start) ∧
    (p ≠ [] → start = stop ∨ ((c.st.unit! start).pfx = Pfx.identity ∧ (c.st.unit! stop).pfx = Pfx.identity)) ∧
    (c.offsets = [] → ∀ h ∈ p, h.offset.val = 0)

def RecurSpec (σ : UId → Rat) (recur : UId → UId → List UId → CM Rat (List (Hop Rat) × List UId)) : Prop :=
  ∀ (a b : UId) (v : List UId) (c c' : Conv Rat) (p : List (Hop Rat)) (v' : List UId),
    GraphOK σ c → a < c.st.units.length → b < c.st.units.length →
    CM.exec (recur a b v) c = (.ok (p, v'), c') → PathSpec σ c a b p c'

theorem Table.get?_some_mem {β : Type} {t : Table β} {a b : UId} {m : β} (h : t.get? a b = some m) :
    (b, m) ∈ t.row a := by
  unfold Table.get? at h
  cases hf : (t.row a).find? (fun c => c.1 == b) with
  | none => rw [hf] at h; cases h
  | some c =>
    rw [hf] at h
    simp only [Option.some.injEq] at h
    have hm := List.mem_of_find?_eq_some hf
    have hb : c.1 = b := by have := List.find?_some hf; simpa using this
    rw [← h, ← hb]; exact hm

theorem offsets_get_nil (a b : UId) : Table.get? ([] : Table (Mag Rat)) a b = none := rfl

theorem pathLoop_sound {recur : UId → UId → List UId → CM Rat (List (Hop Rat) × List UId)}
    (hrec : RecurSpec σ recur) (start' stop' : UId) (e : Int) (he : e ≠ 0) :
    ∀ (items : List (UId × Mag Rat)) (best : List (Hop Rat)) (visited : List UId) (c c' : Conv Rat)
      (p : List (Hop Rat)) (v' : List UId),
      GraphOK σ c → start' < c.st.units.length → stop' < c.st.units.length →
      (∀ it ∈ items, it ∈ c.ratios.row start') →
      (∀ h ∈ best, h.unit < c.st.units.length) →
      (best ≠ [] → pathScale best * unitSz σ c.st stop' ^ e = unitSz σ c.st start' ^ e) →
      (best ≠ [] → (c.st.unit! start').pfx = Pfx.identity ∧ (c.st.unit! stop').pfx = Pfx.identity) →
      (c.offsets = [] → ∀ h ∈ best, h.offset.val = 0) →
      CM.exec (pathLoop recur start' stop' e items best visited) c = (.ok (p, v'), c') →
      GraphOK σ c' ∧ CFrame c c' ∧ (∀ h ∈ p, h.unit < c'.st.units.length) ∧
        (p ≠ [] → pathScale p * unitSz σ c.st stop' ^ e = unitSz σ c.st start' ^ e) ∧
        (p ≠ [] → (c.st.unit! start').pfx = Pfx.identity ∧ (c.st.unit! stop').pfx = Pfx.identity) ∧
        (c.offsets = [] → ∀ h ∈ p, h.offset.val = 0) := by
  intro items
  induction items with
  | nil =>
    intro best visited c c' p v' hg _ _ _ hbu hb hbp hbo hx
    unfold pathLoop at hx
    rw [exec_pure] at hx
    simp only [Prod.mk.injEq, Except.ok.injEq] at hx
    obtain ⟨⟨rfl, rfl⟩, rfl⟩ := hx
    exact ⟨hg, CFrame.refl _, hbu, hb, hbp, hbo⟩
  | cons it rest ih =>
    intro best visited c c' p v' hg hs ht hit hbu hb hbp hbo hx
    obtain ⟨mid, scale⟩ := it
    unfold pathLoop at hx
    obtain ⟨c0, c0', h0, hx⟩ := exec_bind_ok hx
    rw [exec_getThe'] at h0
    simp only [Prod.mk.injEq, Except.ok.injEq] at h0
    obtain ⟨rfl, rfl⟩ := h0
    obtain ⟨hms, hmm, hmv⟩ := hg.edges start' mid scale (hit _ List.mem_cons_self)
    obtain ⟨hns, hnm⟩ := hg.nodes start' mid scale (hit _ List.mem_cons_self)
    have hrest : ∀ it ∈ rest, it ∈ c.ratios.row start' := fun x hx => hit x (List.mem_cons_of_mem _ hx)
    by_cases hms' : (mid == stop') = true
    · -- the direct hop
      have hmid : mid = stop' := by simpa using hms'
      simp only [hms', ↓reduceIte] at hx
      obtain ⟨h, c1, h1, hx⟩ := exec_bind_ok hx
      rw [exec_pure] at hx
      simp only [Prod.mk.injEq, Except.ok.injEq] at hx
      obtain ⟨⟨rfl, rfl⟩, rfl⟩ := hx
      obtain ⟨g1, f1, s1, u1, o1⟩ := powHop_ok hg (h := { scale := scale, offset := ((c.offsets.get? start' mid).getD (.int 0)), unit := stop' }) ht h1
      refine ⟨g1, f1, ?_, ?_, ?_, ?_⟩
      · intro x hx; simp only [List.mem_singleton] at hx; subst hx; exact u1
      · intro _
        simp only [pathScale_cons, pathScale_nil, mul_one, s1]
        rw [← mul_zpow, ← hmid, hmv]
      · intro _; exact ⟨hns, hmid ▸ hnm⟩
      · intro hoff x hx
        simp only [List.mem_singleton] at hx; subst hx
        rw [o1]
        simp only [hoff, offsets_get_nil, Option.getD_none]
        show ((0 : Int) : Rat) ^ e = 0
        rw [Int.cast_zero, zero_zpow e he]
    · simp only [hms', Bool.false_eq_true, ↓reduceIte] at hx
      obtain ⟨⟨path, vis1⟩, c1, h1, hx⟩ := exec_bind_ok hx
      obtain ⟨g1, f1, pu1, ps1, pp1, po1⟩ := hrec mid stop' visited c c1 path vis1 hg hmm ht h1
      simp only at hx
      have hrest1 : ∀ it ∈ rest, it ∈ c1.ratios.row start' := by rw [f1.ratios]; exact hrest
      have hoff1 : c1.offsets = [] → c.offsets = [] := by rw [f1.offsets]; exact id
      by_cases hpe : path.isEmpty = true
      · simp only [hpe, ↓reduceIte] at hx
        obtain ⟨g2, f2, pu2, ps2, pp2, po2⟩ := ih best vis1 c1 c' p v' g1 (f1.lt hs) (f1.lt ht) hrest1
          (fun h hh => f1.lt (hbu h hh)) (by rw [f1.sz hs, f1.sz ht]; exact hb)
          (by rw [f1.pfx hs, f1.pfx ht]; exact hbp) (fun h => hbo (hoff1 h)) hx
        exact ⟨g2, f1.trans f2, pu2, by rw [f1.sz hs, f1.sz ht] at ps2; exact ps2,
          by rw [f1.pfx hs, f1.pfx ht] at pp2; exact pp2, fun h => po2 (by rw [f1.offsets]; exact h)⟩
      · simp only [hpe, Bool.false_eq_true, ↓reduceIte] at hx
        have hpne : path ≠ [] := by intro h; rw [h] at hpe; simp at hpe
        obtain ⟨path2, c2, h2, hx⟩ := exec_bind_ok hx
        have hunits : ∀ h ∈ ({ scale := scale, offset := ((c.offsets.get? start' mid).getD (.int 0)), unit := mid } : Hop Rat) :: path,
            h.unit < c1.st.units.length := by
          intro h hh
          rcases List.mem_cons.1 hh with rfl | hh
          · exact f1.lt hmm
          · exact pu1 h hh
        obtain ⟨g2, f2, pu2, ps2, _, po2⟩ := mapM_powHop_ok e _ c1 c2 path2 g1 hunits h2
        have f12 := f1.trans f2
        have hval : pathScale path2 * unitSz σ c2.st stop' ^ e = unitSz σ c2.st start' ^ e := by
          rw [ps2, f12.sz hs, f12.sz ht, pathScale_cons, ← mul_zpow]
          congr 1
          show scale.val * pathScale path * unitSz σ c.st stop' = unitSz σ c.st start'
          rw [mul_assoc, ps1 hpne, hmv]
        have hpfx : (c2.st.unit! start').pfx = Pfx.identity ∧ (c2.st.unit! stop').pfx = Pfx.identity := by
          rw [f12.pfx hs, f12.pfx ht]
          refine ⟨hns, ?_⟩
          rcases pp1 hpne with h | h
          · exact h ▸ hnm
          · exact h.2
        have hoffs : c2.offsets = [] → ∀ h ∈ path2, h.offset.val = 0 := by
          intro hoff
          have hoff0 : c.offsets = [] := by rw [f12.offsets] at hoff; exact hoff
          apply po2 he
          intro h hh
          rcases List.mem_cons.1 hh with rfl | hh
          · simp only [hoff0, offsets_get_nil, Option.getD_none]; rfl
          · exact po1 hoff0 h hh
        have hrest2 : ∀ it ∈ rest, it ∈ c2.ratios.row start' := by rw [f2.ratios]; exact hrest1
        have hoff2 : c2.offsets = [] → c.offsets = [] := by rw [f12.offsets]; exact id
        by_cases hbetter : (best.isEmpty || decide (path2.length < best.length)) = true
        · simp only [hbetter, ↓reduceIte] at hx
          obtain ⟨g3, f3, pu3, ps3, pp3, po3⟩ := ih path2 vis1 c2 c' p v' g2 (f12.lt hs) (f12.lt ht) hrest2 pu2
            (fun _ => hval) (fun _ => hpfx) hoffs hx
          exact ⟨g3, f12.trans f3, pu3, by rw [f12.sz hs, f12.sz ht] at ps3; exact ps3,
            by rw [f12.pfx hs, f12.pfx ht] at pp3; exact pp3, fun h => po3 (by rw [f12.offsets]; exact h)⟩
        · simp only [hbetter, Bool.false_eq_true, ↓reduceIte] at hx
          obtain ⟨g3, f3, pu3, ps3, pp3, po3⟩ := ih best vis1 c2 c' p v' g2 (f12.lt hs) (f12.lt ht) hrest2
            (fun h hh => f12.lt (hbu h hh)) (by rw [f12.sz hs, f12.sz ht]; exact hb)
            (by rw [f12.pfx hs, f12.pfx ht]; exact hbp) (fun h => hbo (hoff2 h)) hx
          exact ⟨g3, f12.trans f3, pu3, by rw [f12.sz hs, f12.sz ht] at ps3; exact ps3,
            by rw [f12.pfx hs, f12.pfx ht] at pp3; exact pp3, fun h => po3 (by rw [f12.offsets]; exact h)⟩

/-- **Soundness of `_find_path_recursive`**, for every fuel, start, stop and visited set. -/
theorem findPathRec_sound : ∀ fuel, RecurSpec σ (findPathRec (α := Rat) fuel) := by
  intro fuel
  induction fuel with
  | zero =>
    intro a b v c c' p v' _ _ _ hx
    unfold findPathRec at hx
    rw [exec_throw] at hx; simp at hx
  | succ fuel ih =>
    intro start stop visited c c' p v' hg hs ht hx
    unfold findPathRec at hx
    by_cases hse : (start == stop) = true
    · have hEq : start = stop := by simpa using hse
      simp only [hse, ↓reduceIte, exec_pure, Prod.mk.injEq, Except.ok.injEq] at hx
      obtain ⟨⟨rfl, rfl⟩, rfl⟩ := hx
      refine ⟨hg, CFrame.refl _, ?_, ?_, fun _ => Or.inl hEq, ?_⟩
      · intro h hh; simp only [List.mem_singleton] at hh; subst hh; exact ht
      · intro _; simp [hEq]
      · intro _ h hh; simp only [List.mem_singleton] at hh; subst hh; rfl
    · simp only [hse, Bool.false_eq_true, ↓reduceIte] at hx
      by_cases hvis : visited.contains start = true
      · simp only [hvis, ↓reduceIte, exec_pure, Prod.mk.injEq, Except.ok.injEq] at hx
        obtain ⟨⟨rfl, rfl⟩, rfl⟩ := hx
        exact ⟨hg, CFrame.refl _, by simp, by simp, by simp, by simp⟩
      · simp only [hvis, Bool.false_eq_true, ↓reduceIte] at hx
        obtain ⟨c0, c0', h0, hx⟩ := exec_bind_ok hx
        rw [exec_getThe'] at h0
        simp only [Prod.mk.injEq, Except.ok.injEq] at h0
        obtain ⟨rfl, rfl⟩ := h0
        by_cases hdir : (directEdge c start stop).isSome = true
        · -- the declared edge between these very units
          simp only [hdir, ↓reduceIte, exec_pure, Prod.mk.injEq, Except.ok.injEq] at hx
          obtain ⟨⟨rfl, rfl⟩, rfl⟩ := hx
          unfold directEdge at hdir ⊢
          cases hget : c.ratios.get? start stop with
          | none => rw [hget] at hdir; simp at hdir
          | some scale =>
            have hmem := Table.get?_some_mem hget
            obtain ⟨_, _, hv⟩ := hg.edges start stop scale hmem
            obtain ⟨hn1, hn2⟩ := hg.nodes start stop scale hmem
            simp only [Option.map_some, Option.toList_some]
            refine ⟨hg, CFrame.refl _, ?_, ?_, fun _ => Or.inr ⟨hn1, hn2⟩, ?_⟩
            · intro h hh; simp only [List.mem_singleton] at hh; subst hh; exact ht
            · intro _; simp only [pathScale_cons, pathScale_nil, mul_one]; exact hv
            · intro hoff h hh
              simp only [List.mem_singleton] at hh; subst hh
              simp only [hoff, offsets_get_nil, Option.getD_none]; rfl
        simp only [hdir, Bool.false_eq_true, ↓reduceIte] at hx
        obtain ⟨⟨e, start', stop'⟩, c1, h1, hx⟩ := exec_bind_ok hx
        obtain ⟨g1, f1, hs', ht', zs, zt, he, ps, pt⟩ := reduceDimension_ok hg hs ht h1
        simp only at hx
        obtain ⟨c1', c1'', h2, hx⟩ := exec_bind_ok hx
        rw [exec_getThe'] at h2
        simp only [Prod.mk.injEq, Except.ok.injEq] at h2
        obtain ⟨rfl, rfl⟩ := h2
        obtain ⟨g2, f2, pu2, ps2, pp2, po2⟩ := pathLoop_sound ih start' stop' e he (c1.ratios.row start') [] (visited ++ [start])
          c1 c' p v' g1 hs' ht' (fun _ h => h) (by simp) (by simp) (by simp) (by simp) hx
        refine ⟨g2, f1.trans f2, pu2, ?_, ?_, ?_⟩
        · intro hp
          have := ps2 hp
          rw [zs, zt] at this
          exact this
        · intro hp
          exact Or.inr ⟨ps (pp2 hp).1, pt (pp2 hp).2⟩
        · intro hoff
          exact po2 (by rw [f1.offsets]; exact hoff)

/-- **Soundness of `_find_path`**: in a graph that agrees with the sizes σ, whatever non-empty path
    the search returns multiplies to `size start / size stop`; the graph is not written; a path between
    different units only exists between unprefixed units; without declared offsets every hop is offset free. -/
theorem findPath_sound {c c' : Conv Rat} {start stop : UId} {p : List (Hop Rat)}
    (hg : GraphOK σ c) (hs : start < c.st.units.length) (ht : stop < c.st.units.length)
    (hx : CM.exec (findPath start stop) c = (.ok p, c')) :
    GraphOK σ c' ∧ CFrame c c' ∧ (p ≠ [] → pathScale p * unitSz σ c.st stop = unitSz σ c.st start) ∧
      (p ≠ [] → start = stop ∨ ((c.st.unit! start).pfx = Pfx.identity ∧ (c.st.unit! stop).pfx = Pfx.identity)) ∧
      (c.offsets = [] → ∀ h ∈ p, h.offset.val = 0) := by
  unfold findPath at hx
  obtain ⟨c0, c0', h0, hx⟩ := exec_bind_ok hx
  rw [exec_getThe'] at h0
  simp only [Prod.mk.injEq, Except.ok.injEq] at h0
  obtain ⟨rfl, rfl⟩ := h0
  obtain ⟨⟨p', v⟩, c1, h1, hx⟩ := exec_bind_ok hx
  rw [exec_pure] at hx
  simp only [Prod.mk.injEq, Except.ok.injEq] at hx
  obtain ⟨rfl, rfl⟩ := hx
  obtain ⟨g, f, _, ps, pp, po⟩ := findPathRec_sound _ start stop [] c c1 p' v hg hs ht h1
  exact ⟨g, f, ps, pp, po⟩

end Measured

namespace Measured
open St

variable {σ : UId → Rat}

/-! ### the direct branch of `_plan_conversion`, and `convert` through it -/

theorem unprefixStep {c : Conv Rat} (hg : GraphOK σ c) {a : UId} (ha : a < c.st.units.length) :
    GraphOK σ { c with st := (c.st.unprefixedUnit a).1 } ∧ CFrame c { c with st := (c.st.unprefixedUnit a).1 } := by
  have hf : CFrame c { c with st := (c.st.unprefixedUnit a).1 } := frame_setSt c (unprefixedUnit_ext _ _)
  exact ⟨hg.frame hf (unprefixedUnit_canon hg.canon ha) (unprefixedUnit_inv hg.inv ha) (unprefixedUnit_reg hg.reg a), hf⟩

/-- When the path search connects `start` and `stop` directly, `_plan_conversion` returns that path
    followed by the division by the target's prefix. -/
theorem planConversion_direct {c c' : Conv Rat} {start stop : UId} {plan : Plan Rat}
    (hg : GraphOK σ c) (hs : start < c.st.units.length) (ht : stop < c.st.units.length)
    (hx : CM.exec (planConversion start stop) c = (.ok plan, c')) :
    GraphOK σ { c with st := (c.st.unprefixedUnit stop).1 } ∧
    ∃ (direct : List (Hop Rat)) (c2 : Conv Rat),
      CM.exec (findPath start stop) { c with st := (c.st.unprefixedUnit stop).1 } = (.ok direct, c2) ∧
      (direct ≠ [] → ∃ head : Mag Rat,
        head.val = 1 / Pfx.val (c.st.unit! stop).pfx ∧
        plan = [ { ratio := .int 1, path := direct, exp := 1 },
                 { ratio := head, path := [{ scale := .int 1, offset := .int 0, unit := c.st.one }], exp := 1 } ] ∧
        c' = c2) := by
  unfold planConversion at hx
  obtain ⟨s0, c0, h0, hx⟩ := exec_bind_ok hx
  rw [exec_getSt] at h0
  simp only [Prod.mk.injEq, Except.ok.injEq] at h0
  obtain ⟨rfl, rfl⟩ := h0
  obtain ⟨unp, c1, h1, hx⟩ := exec_bind_ok hx
  unfold quantifyUnit at h1
  rw [exec_bind, exec_getSt] at h1
  simp only at h1
  rw [exec_bind, exec_liftSt] at h1
  simp only [exec_pure, Prod.mk.injEq, Except.ok.injEq] at h1
  obtain ⟨rfl, rfl⟩ := h1
  obtain ⟨g1, f1⟩ := unprefixStep hg ht
  refine ⟨g1, ?_⟩
  obtain ⟨head, c2, h2, hx⟩ := exec_bind_ok hx
  rw [exec_liftE] at h2
  simp only [Prod.mk.injEq] at h2
  obtain ⟨h2, rfl⟩ := h2
  obtain ⟨s1, c3, h3, hx⟩ := exec_bind_ok hx
  rw [exec_getSt] at h3
  simp only [Prod.mk.injEq, Except.ok.injEq] at h3
  obtain ⟨rfl, rfl⟩ := h3
  obtain ⟨direct, c4, h4, hx⟩ := exec_bind_ok hx
  refine ⟨direct, c4, h4, ?_⟩
  intro hne
  have hne' : direct.isEmpty = false := by
    cases direct with
    | nil => exact absurd rfl hne
    | cons _ _ => rfl
  simp only [hne', Bool.not_false, ↓reduceIte] at hx
  obtain ⟨tail, c5, h5, hx⟩ := exec_bind_ok hx
  rw [exec_pure] at hx
  simp only [Prod.mk.injEq, Except.ok.injEq] at hx
  obtain ⟨rfl, rfl⟩ := hx
  unfold inlinePaths at h5
  simp only [List.mapM_cons, List.mapM_nil] at h5
  rw [exec_bind, exec_bind, exec_findPath_self] at h5
  simp only [List.isEmpty_cons, Bool.false_eq_true, ↓reduceIte, exec_pure, exec_bind, Prod.mk.injEq,
    Except.ok.injEq] at h5
  obtain ⟨rfl, hcc⟩ := h5
  obtain ⟨hv, _⟩ := recip_val h2
  refine ⟨head, ?_, rfl, hcc.symm⟩
  rw [hv, Pfx.value_val]

end Measured

namespace Measured
open St

variable {σ : UId → Rat}

theorem applyPathV_offsetFree (p : List (Hop Rat)) (hz : ∀ h ∈ p, h.offset.val = 0) (m : Rat) :
    applyPathV 1 m (p.map Hop.toV) = m * pathScale p := by
  induction p generalizing m with
  | nil => simp [applyPathV]
  | cons h t ih =>
    simp only [List.map_cons, applyPathV, Hop.toV, pathScale_cons]
    rw [ih (fun x hx => hz x (List.mem_cons_of_mem _ hx)), hz h List.mem_cons_self]
    simp only [zpow_one, add_zero]; ring

theorem unitSz_ne_zero (hσ : ∀ k, σ k ≠ 0) {s : St} (hc : Canon s) {u : UId} (hu : u < s.units.length) :
    unitSz σ s u ≠ 0 := by
  unfold unitSz
  exact mul_ne_zero (ne_of_gt (Pfx.val_pos (canon_pfx hc hu))) (sizeOf_ne_zero hσ _)

/-- **C04 / C05 on the direct fragment, for every graph and every state.**  In a conversion graph
    without offsets that agrees with a size assignment σ, whenever the path search connects the
    quantity's unit and the target directly (named units of one dimension, their powers, chains of
    declared equivalences of any length), the conversion that `convert` returns is exact:
    `result · size(target) = magnitude · size(source)`. -/
theorem convert_direct_exact (hσ : ∀ k, σ k ≠ 0) {c c' : Conv Rat} {q r : Qty Rat} {t : UId}
    (hg : GraphOK σ c) (hq : q.unit < c.st.units.length) (ht : t < c.st.units.length)
    (hoff : c.offsets = []) (h : CM.exec (convert q t) c = (.ok r, c')) :
    r.unit = t ∧
    ∃ (direct : List (Hop Rat)) (c2 : Conv Rat),
      CM.exec (findPath q.unit t)
        { c with st := ((c.st.unprefixedUnit q.unit).1.unprefixedUnit t).1 } = (.ok direct, c2) ∧
      (direct ≠ [] → r.mag.val * unitSz σ c.st t = q.mag.val * unitSz σ c.st q.unit ∧
        GraphOK σ c' ∧ CFrame c c') := by
  obtain ⟨hu, plan, hp, hv⟩ := convert_ok h
  refine ⟨hu, ?_⟩
  obtain ⟨ga, fa⟩ := unprefixStep hg hq
  have hqa := fa.lt hq
  have hta := fa.lt ht
  obtain ⟨gb, direct, c2, hfp, hplan⟩ := planConversion_direct ga hqa hta hp
  refine ⟨direct, c2, hfp, ?_⟩
  intro hne
  obtain ⟨head, hhead, rfl, rfl⟩ := hplan hne
  have fb : CFrame { c with st := (c.st.unprefixedUnit q.unit).1 }
      { c with st := ((c.st.unprefixedUnit q.unit).1.unprefixedUnit t).1 } := (unprefixStep ga hta).2
  have fab := fa.trans fb
  obtain ⟨gc, fc, hps, hpp, hpo⟩ := findPath_sound gb (fab.lt hq) (fab.lt ht) hfp
  refine ⟨?_, gc, fab.trans fc⟩
  have hz := hpo hoff
  have hscale := hps hne
  rw [fab.sz hq, fab.sz ht] at hscale
  have hpfxt : ((c.st.unprefixedUnit q.unit).1.unit! t).pfx = (c.st.unit! t).pfx := fa.pfx ht
  rw [hpfxt] at hhead
  rw [hv]
  simp only [List.map_cons, List.map_nil, PlanStep.toV, applyPlanV, val_int, Int.cast_one, mul_one]
  rw [applyPathV_offsetFree direct hz]
  simp only [List.map_cons, List.map_nil, applyPathV, Hop.toV, val_int, Int.cast_one, Int.cast_zero,
    zpow_one, mul_one, add_zero, hhead, Pfx.value_val]
  have hst := unitSz_ne_zero hσ hg.canon ht
  have hpt : Pfx.val (c.st.unit! t).pfx ≠ 0 := ne_of_gt (Pfx.val_pos (canon_pfx hg.canon ht))
  rcases hpp hne with heq | ⟨hp1, hp2⟩
  · -- the unit itself: the path is the identity hop
    subst heq
    have h1 : pathScale direct = 1 := by
      have h2 : pathScale direct * unitSz σ c.st q.unit = 1 * unitSz σ c.st q.unit := by rw [one_mul]; exact hscale
      exact mul_right_cancel₀ hst h2
    rw [h1]
    field_simp
  · rw [fab.pfx hq] at hp1
    rw [fab.pfx ht] at hp2
    rw [hp1, hp2, Pfx.val_identity]
    rw [← hscale]
    ring

end Measured
