"""C08 — conversion results depend only on declared equivalences, not on query history.

Generator: histories that interleave definitions of fresh base units, equivalence
declarations between them (and shipped units), and conversion / comparison queries —
including queries that fail *before* the connecting declaration is made and are repeated
after it.  Every action is executed through the line protocol (so the cache-free Lean model
is compared with the memoising implementation), and for several queries per history the
property's own oracle runs: the declarations made so far plus that one query are replayed in
a FRESH interpreter and the outcomes compared.
"""
import json
import os
import struct
import subprocess
import tempfile
from concurrent.futures import ThreadPoolExecutor

from measured import Unit, conversions

from .common import BaseContext
from impl import parse_mag  # noqa: F401

LEVEL_TEXT = ("query_history_free (Lean, by induction over arbitrary interleavings of declarations and queries): when every "
              "graph-changing declaration clears the memo tables, each query returns exactly what the uncached computation returns "
              "on the graph built from the declarations made so far, i.e. the fresh-process answer; repeated queries agree; a query "
              "that failed before a declaration sees it afterwards. stale_witness proves the statement false without the clearing "
              "(the pinned code before the fix: commit). Per run, the memoisation discipline is re-extracted from the AST of "
              "conversions.py (which functions are lru_cache'd, which read the graph, which write it and what they clear) and the "
              "obligation cache_discipline_ok is decided. The clause 'succeeds once it is declared' is proved for the model of "
              "the real equate/_find_path_recursive/convert: a declared pair is found by the path search in every state "
              "(declared_pair_is_found), equate writes both directions (equate_declares), and a quantity of the one unit converts to "
              "the other by exactly the declared ratio (once_declared_it_converts) - also between powers, (X**2).equals(4*Y**2), where "
              "the pinned code failed (fix: commit). 'Conversions attempted in between never change the outcome of a later one' "
              "is proved for conversions between simple units: after any Steps (unit operations, consistent declarations, direct and "
              "planner conversions) the same conversion returns the same magnitude (simple_conversion_history_free); for single-factor units "
              "of any fundamental dimension - temperatures with their offsets included - with NO exactness assumption on the graph "
              "(the shipped float constants): the path search there is a pure function of the two tables (findPath_flat) and the same "
              "conversion returns the same magnitude in any later state of the same tables (flat_conversion_state_free). And FOR EVERY "
              "QUERY WHATSOEVER - any conversion, comparison, sum, product, power or root, with any arguments, returning or raising, "
              "through every branch of the factor planner - the ratio and offset tables and the interpreter flag are left as they were "
              "and the unit table only grows, old units unchanged (framed_convert, ..., queries_frame: no history of queries changes "
              "the declarations; a structural walk over the model's code, Proofs/Frame.lean). The uncached computation being a function of the declared graph is tied to "
              "the code by the cache-free Lean model of the planner (differential execution of histories against the memoising "
              "implementation) and by the property's own oracle: replay of declarations + one query in a fresh interpreter.")
LEVEL_NOTE = ("Partial: the planner itself is NOT history independent - the order of an interned unit's factor mapping, fixed by "
              "whichever expression first built the unit, decides how factors are paired (known finding C08-K9-factor-order; "
              "factor_order_witness is the kernel-evaluated counterexample in the model of the real planner). Trusted: Lean kernel; translator gen_caches.py (AST pattern: unconditional <fn>.cache_clear() statements after the last "
              "graph write); harness. Assumed: functools.lru_cache semantics; the per-object caches on Unit/Dimension methods do not "
              "depend on the graph (interning is deterministic - C02).")
TECHNIQUE = "Lean 4 proof over an abstract memoisation model + AST-extracted discipline obligation + cache-free model correspondence + fresh-process oracle"

THEOREMS = [
    "Measured.C08.step_coh", "Measured.C08.query_correct", "Measured.C08.query_history_free",
    "Measured.C08.query_repeatable", "Measured.C08.declared_then_visible", "Measured.C08.stale_witness",
    "Measured.Obligations.cache_discipline_ok", "Measured.Obligations.cached_readers_cleared",
    "Measured.C08.factor_order_witness",
    "Measured.C08.declared_pair_is_found", "Measured.C08.once_declared_it_converts", "Measured.equate_declares",
    "Measured.C08.simple_conversion_history_free", "Measured.steps_spec",
    "Measured.findPath_flat", "Measured.flat_conversion_state_free",
    "Measured.framed_convert", "Measured.framed_planConversion", "Measured.framed_eq", "Measured.framed_lt",
    "Measured.framed_add", "Measured.queries_frame",
    "Measured.C08.path_search_pure", "Measured.C08.flat_conversion_history_free", "Measured.C08.conversion_changes_no_declaration", "Measured.C08.no_query_changes_the_declarations",
    "Measured.queries_good", "Measured.Obligations.History.shippedState_after", "Measured.Obligations.History.after_any_history", "Measured.Obligations.History.sample_history_valid",
    "Measured.Obligations.History.simple_conversions_near_in", "Measured.Obligations.History.simple_only_not_found_in", "Measured.Obligations.History.simple_units_interconvert_in", "Measured.Obligations.History.direct_conversions_near_in", "Measured.Obligations.History.fundamental_units_interconvert_in",
]
LEAN_TARGETS = ["Props.C08", "Props.C08Planner", "Props.C08Declared", "Proofs.Flat", "Proofs.Frame", "Obligations.C08", "Props.Planner", "Obligations.History"]
QUICK = {"chunks": 4, "ops": 500}
THOROUGH = {"chunks": 16, "ops": 3000}
RULE = ("histories of 15-40 actions over 3-5 freshly defined base units and shipped units; non-trivial = a query whose "
        "outcome changes across the history (fails, then succeeds after a declaration) or that is checked against a fresh "
        "interpreter; distinct by action text")


class Context(BaseContext):
    def __init__(self, sess, rng):
        super().__init__(sess, rng)
        self.actions = []       # the current history, as replayable actions
        self.to_verify = []     # (actions-so-far, in-history outcome)
        self.last_action = None
        self.last_outcome = None
        self.extra["fresh_replays"] = 0
        self.extra["outcome_changed_after_declaration"] = 0
        self.seen = {}
        self.declared_fail = []


FOCUS = int(os.environ["VERIF_FOCUS_OP"]) if os.environ.get("VERIF_FOCUS_OP") else None


def ftok(x):
    return "f:%016x" % struct.unpack("<Q", struct.pack("<d", float(x)))[0]


def strip_unit(res):
    """Outcome of a query line without ordinals: `ok q <mag>` / `ok b true` / `ERR X`."""
    f = res.split("\t")
    if f[0] == "ok" and len(f) >= 3 and f[1] == "q":
        return "ok\tq\t" + f[2]
    return res


def fresh_outcome(actions):
    here = os.path.dirname(os.path.dirname(os.path.abspath(__file__)))
    with tempfile.NamedTemporaryFile("w", suffix=".json", delete=False, dir="/tmp") as fh:
        json.dump(actions, fh)
        path = fh.name
    try:
        out = subprocess.run(["/venv/bin/python", os.path.join(here, "fresh_replay.py"), path],
                             stdout=subprocess.PIPE, stderr=subprocess.PIPE, text=True, timeout=120)
        return out.stdout.strip().splitlines()[-1] if out.stdout.strip() else "CRASH " + out.stderr[-300:]
    finally:
        os.unlink(path)


def final_oracle(ctx):
    from diff import line_equal
    fails = []
    jobs = ctx.to_verify
    with ThreadPoolExecutor(max_workers=4) as ex:
        outs = list(ex.map(lambda j: fresh_outcome(j[0]), jobs))
    for job, want in zip(jobs, outs):
        actions, got = job[0], job[1]
        ctx.oracle_checks += 1
        ctx.extra["fresh_replays"] += 1
        if not line_equal(got, want, 1e-12):
            # all units of a history share one dimension: two factors on the same side of the fraction are
            # the planner's ambiguous-pairing class (see convcommon.classify, K9)
            sides = [x for x in actions[-1] if isinstance(x, dict)]
            amb = any(sum(1 for _n, e in sd["f"] if e > 0) >= 2 or sum(1 for _n, e in sd["f"] if e < 0) >= 2 for sd in sides)
            fails.append({"kind": "history-dependent-result", "class": "K9-ambiguous-pairing" if amb else None,
                          "focus": len(job) > 2, **({"op_index": FOCUS} if len(job) > 2 and FOCUS is not None else {}),
                          "in_history": got, "fresh_process": want,
                          "query": actions[-1], "declarations": [a for a in actions[:-1] if a[0] != "query" and a[0] != "cmp"],
                          "earlier_queries": sum(1 for a in actions[:-1] if a[0] in ("query", "cmp"))})
    return fails


def oracle(ctx, line, res):
    # "a conversion ... succeeds once [the equivalence] is declared": filled in by the generator right after
    # each declaration (the conversion of the declared left-hand side to the right-hand side's unit)
    out, ctx.declared_fail = ctx.declared_fail, []
    return out


def nontrivial(ctx, line, res):
    f = line.split("\t")
    if f[0] == "X" and f[1] in ("conv", "eq", "lt", "le", "gt", "ge", "equate"):
        return line
    return None


def generate(ctx, n_ops):
    rng = ctx.rng
    sess = ctx.sess
    emitted = 0
    qn = 0
    hist_no = 0

    def emit(line):
        nonlocal emitted
        emitted += 1
        return line

    def build(expr):
        """Emit the U ops that build `expr`; returns the ordinal or None."""
        cur = None
        for name, e in expr["f"]:
            res = yield emit("U\tnamed\t%s" % name)
            if not res.startswith("ok\tu"):
                return None
            u = int(res.split("\t")[1][1:])
            res = yield emit("U\tpow\tu%d\t%d" % (u, e))
            if not res.startswith("ok\tu"):
                return None
            u = int(res.split("\t")[1][1:])
            if cur is None:
                cur = u
            else:
                res = yield emit("U\tmul\tu%d\tu%d" % (cur, u))
                if not res.startswith("ok\tu"):
                    return None
                cur = int(res.split("\t")[1][1:])
        if expr.get("p"):
            from measured import Prefix
            p = Prefix._by_name[expr["p"]]
            res = yield emit("U\tpmul\tp%d:%d\tu%d" % (p.base, p.exponent, cur))
            if not res.startswith("ok\tu"):
                return None
            cur = int(res.split("\t")[1][1:])
        return cur

    while emitted < n_ops:
        hist_no += 1
        tag = "h%d_%d_" % (rng.randrange(10**6), hist_no)
        ctx.actions = []
        names = []
        dim = rng.choice(["length", "mass", "time"])
        anchor = {"length": "meter", "mass": "gram", "time": "second"}[dim]
        dvec = [d for d in __import__("measured").Dimension._fundamental if d.name == dim][0]
        n_units = rng.randint(3, 5)
        pending_defs = ["%su%d" % (tag, k) for k in range(n_units)]
        declared = set()
        verify_budget = 3
        outcomes = {}
        history_queries = []
        requery = []
        size = {anchor: 1}
        pending_fix = []
        linear, squares = {anchor}, set()

        def declare(a, b, k, power=1):
            """1 a**power = k b**power  (k is the ratio of the POWERS)"""
            nonlocal qn
            mag = ("i:%d" % int(k)) if k >= 1 and k == int(k) else ftok(k)
            expr = {"f": [[b, power]]}
            ub = yield from build(expr)
            ua = yield from build({"f": [[a, power]]})
            if ub is None or ua is None:
                return False
            res = yield emit("X\tqnew\ti:1\tu%d" % ua)
            qa = qn
            qn += 1
            res = yield emit("X\tqnew\t%s\tu%d" % (mag, ub))
            qb = qn
            qn += 1
            res = yield emit("X\tequate\tq%d\tq%d" % (qa, qb))
            if res != "ok":
                return False
            ctx.actions.append(["equate", a, mag, expr] if power == 1 else ["equatep", a, power, mag, expr])
            # once declared, it converts: 1 a**power -> b**power is exactly the declared ratio
            res = yield emit("X\tconv\tq%d\tu%d" % (qa, ub))
            ctx.oracle_checks += 1
            want = float(k)
            ok = False
            if res.startswith("ok\tq"):
                qn += 1
                try:
                    got = float(parse_mag(res.split("\t")[2]))
                    ok = got == want or abs(got - want) <= 1e-12 * abs(want)
                except Exception:  # noqa: BLE001
                    ok = False
            if not ok:
                ctx.declared_fail.append({"kind": "declared-equivalence-not-usable", "declared": "1 %s**%d = %r %s**%d" % (a, power, want, b, power),
                                          "got": res})
            # ask again what was asked before about these units (a query or a COMPARISON that
            # failed or answered differently before the declaration must see it now)
            touched = {a, b}
            again = [q for q in history_queries if touched & {x[0] for x in q[3]["f"] + q[4]["f"]}]
            rng.shuffle(again)
            requery.extend(again[:2])
            return True

        for step in range(rng.randint(15, 40)):
            r = rng.random()
            if pending_defs and (r < 0.25 or len(names) < 2):
                name = pending_defs.pop(0)
                res = yield emit("U\tdefine\td%s\t%s\t%s" % (",".join(str(e) for e in dvec.exponents), name, name))
                if res.startswith("ok"):
                    names.append(name)
                    ctx.actions.append(["define", name, dim])
                continue
            pool = names + [anchor]
            if pending_fix and r < 0.35:
                # correct an equivalence that was first declared with a wrong ratio: the pair is already
                # connected, so no edge is added - only the ratio changes - and earlier answers are stale
                a, b = pending_fix.pop(0)
                ok = yield from declare(a, b, size[a] / size[b])
                if ok:
                    declared.add((a, b))
                continue
            if r < 0.45 and len(names) >= 1:
                # declare an equivalence between two units that are not yet directly declared
                a = rng.choice(names)
                b = rng.choice([x for x in pool if x != a])
                if (a, b) in declared or (b, a) in declared or (a, b) in pending_fix or (b, a) in pending_fix:
                    continue
                # declarations are mutually CONSISTENT: every unit has a hidden size (a power of two,
                # so every ratio is exact in binary floating point) and 1 a = (size a / size b) b.
                # With inconsistent declarations the answer legitimately depends on the route, and the
                # route on object identities - that is not what C08 is about.  The exception is a
                # declaration that is made with a wrong ratio first and corrected later in the history
                # (queries asked in between are re-asked after the correction).
                for x in (a, b):
                    if x not in size:
                        size[x] = rng.choice([1, 2, 4, 8, 16, 1024, 0.5, 0.25, 0.125])
                k = size[a] / size[b]
                if rng.random() < 0.25 and len(pending_fix) < 1:
                    ok = yield from declare(a, b, k * rng.choice([4, 0.5]))
                    if ok:
                        pending_fix.append((a, b))
                        ctx.extra["redeclarations"] = ctx.extra.get("redeclarations", 0) + 1
                    continue
                if rng.random() < 0.35 and a not in linear and b not in linear:
                    # an equivalence between the SQUARES only (1 a**2 = k**2 b**2); a and b themselves stay unconnected
                    ok = yield from declare(a, b, k * k, power=2)
                    if ok:
                        declared.add((a, b))
                        squares.add(a)
                        squares.add(b)
                        ctx.extra["power_declarations"] = ctx.extra.get("power_declarations", 0) + 1
                    continue
                if a in squares or b in squares:
                    continue
                ok = yield from declare(a, b, k)
                if ok:
                    declared.add((a, b))
                    linear.add(a)
                    linear.add(b)
                continue
            # a query
            if len(pool) < 2:
                continue
            forced = requery.pop() if requery and rng.random() < 0.8 else None
            if forced is not None:
                kind, op, mag, ea, eb = forced
            else:
                e = rng.choice([1, 1, 1, 2, -1])
                a, b = rng.sample(pool, 2)
                ea = {"f": [[a, e]]}
                eb = {"f": [[b, e]]}
                if rng.random() < 0.25:
                    ea["p"] = rng.choice(["kilo", "milli", "centi"])
                if rng.random() < 0.3 and len(pool) >= 3:
                    c = rng.choice([x for x in pool if x not in (a, b)])
                    ea["f"].append([c, 1])
                    eb["f"].append([c, 1])
                mag = rng.choice(["i:1", "i:3", ftok(2.5), "i:-4"])
                kind = "query" if rng.random() < 0.7 else "cmp"
                op = rng.choice(["eq", "lt", "ge"])
                history_queries.append((kind, op, mag, ea, eb))
            ua = yield from build(ea)
            ub = yield from build(eb)
            if ua is None or ub is None:
                continue
            if kind == "query":
                action = ["query", mag, ea, eb]
                res = yield emit("X\tqnew\t%s\tu%d" % (mag, ua))
                qa = qn
                qn += 1
                res = yield emit("X\tconv\tq%d\tu%d" % (qa, ub))
                if res.startswith("ok\tq"):
                    qn += 1
            else:
                action = ["cmp", op, mag, ea, "i:2", eb]
                res = yield emit("X\tqnew\t%s\tu%d" % (mag, ua))
                qa = qn
                qn += 1
                res = yield emit("X\tqnew\ti:2\tu%d" % ub)
                qb = qn
                qn += 1
                res = yield emit("X\t%s\tq%d\tq%d" % (op, qa, qb))
            outcome = strip_unit(res)
            key = json.dumps(action)
            if key in outcomes and outcomes[key][0] != outcome:
                ctx.extra["outcome_changed_after_declaration"] += 1
            first = key not in outcomes
            outcomes[key] = (outcome, len(ctx.actions))
            ctx.actions.append(action)
            # verify against a fresh interpreter: prefer queries that are repeats after a change
            if verify_budget > 0 and (not first or rng.random() < 0.15):
                verify_budget -= 1
                ctx.to_verify.append((list(ctx.actions), outcome))
            elif FOCUS is not None and emitted - 1 == FOCUS:
                # the cache-free model and the implementation part here: ask a fresh interpreter
                ctx.to_verify.append((list(ctx.actions), outcome, True))
            # sometimes repeat the very same query immediately (must be identical)
        # end of history: always verify the last query
        if ctx.actions and ctx.actions[-1][0] in ("query", "cmp") and verify_budget > 0:
            ctx.to_verify.append((list(ctx.actions), strip_unit(res)))
    yield "STATE"
