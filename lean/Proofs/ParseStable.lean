/-
  Proofs/ParseStable.lean — running the LR driver a second time, from any later state, repeats the
  first run (C17: "parsing the same text twice gives the same result").

  Generic part: if every semantic action is *stable* — executed again in any state `s2` that extends
  the state it produced, it changes nothing and returns the same value — then so is the whole
  lex/parse loop, for every table, lexer and input.
-/
import Proofs.ParseGen

namespace Measured

section
variable {σ V : Type} (t : LRTable) (rules : List GRule) (endS : Nat)
  (act : σ → GRule → List V → σ × Except Exc V) (mk : Tok → V)
  (Good : σ → Prop) (Le : σ → σ → Prop) (VOK : σ → V → Prop)

/-- what the generic lemmas need from the semantic actions -/
structure StableActs : Prop where
  le_refl   : ∀ s, Le s s
  le_trans  : ∀ a b c, Le a b → Le b c → Le a c
  vok_mono  : ∀ s s' v, Le s s' → VOK s v → VOK s' v
  vok_tok   : ∀ s tk, VOK s (mk tk)
  act_le    : ∀ s r args, Le s (act s r args).1
  act_good  : ∀ s r args, Good s → (∀ a ∈ args, VOK s a) →
                Good (act s r args).1 ∧ ∀ v, (act s r args).2 = .ok v → VOK (act s r args).1 v
  act_stable : ∀ s r args, Good s → (∀ a ∈ args, VOK s a) →
                ∀ s2, Le (act s r args).1 s2 → Good s2 → act s2 r args = (s2, (act s r args).2)

variable {t rules endS act mk Good Le VOK}

theorem take_reverse_vok {s : σ} {vals : List V} (h : ∀ v ∈ vals, VOK s v) (n : Nat) :
    ∀ a ∈ (vals.take n).reverse, VOK s a :=
  fun a ha => h a (List.mem_of_mem_take (List.mem_reverse.mp ha))

theorem feed_stable (H : StableActs act mk Good Le VOK) (tok : Tok) (isEnd : Bool) :
    ∀ (fuel : Nat) (s : σ) (stack : List Nat) (vals : List V), Good s → (∀ v ∈ vals, VOK s v) →
      (Good (feed t rules endS act mk tok isEnd fuel s stack vals).1 ∧
       (∀ st vs o, (feed t rules endS act mk tok isEnd fuel s stack vals).2 = .ok (st, vs, o) →
          (∀ v ∈ vs, VOK (feed t rules endS act mk tok isEnd fuel s stack vals).1 v) ∧
          (∀ w, o = some w → VOK (feed t rules endS act mk tok isEnd fuel s stack vals).1 w))) ∧
      ∀ s2, Le (feed t rules endS act mk tok isEnd fuel s stack vals).1 s2 → Good s2 →
        feed t rules endS act mk tok isEnd fuel s2 stack vals =
          (s2, (feed t rules endS act mk tok isEnd fuel s stack vals).2) := by
  intro fuel
  induction fuel with
  | zero =>
    intro s stack vals hg hv
    exact ⟨⟨hg, fun st vs o h => by simp [feed] at h⟩, fun s2 _ _ => by first | rfl | trivial⟩
  | succ fuel ih =>
    intro s stack vals hg hv
    cases stack with
    | nil => exact ⟨⟨hg, fun st vs o h => by simp [feed] at h⟩, fun s2 _ _ => by first | rfl | trivial⟩
    | cons q rest =>
      cases ha : t.action? q tok.type with
      | none =>
        simp only [feed, ha]
        exact ⟨⟨hg, fun st vs o h => by cases h⟩, fun s2 _ _ => by first | rfl | trivial⟩
      | some a =>
        cases a with
        | shift q' =>
          simp only [feed, ha]
          refine ⟨⟨hg, fun st vs o h => ?_⟩, fun s2 _ _ => by first | rfl | trivial⟩
          injection h with h
          simp only [Prod.mk.injEq] at h
          obtain ⟨_, h2, h3⟩ := h
          subst h2
          refine ⟨?_, fun w hw => by rw [← h3] at hw; cases hw⟩
          intro v hv'
          rcases List.mem_cons.mp hv' with rfl | hv'
          · exact H.vok_tok s tok
          · exact hv v hv'
        | reduce r =>
          cases hr : rules[r]? with
          | none =>
            simp only [feed, ha, hr]
            exact ⟨⟨hg, fun st vs o h => by cases h⟩, fun s2 _ _ => by first | rfl | trivial⟩
          | some rule =>
            have hargs := take_reverse_vok (VOK := VOK) hv rule.expansion.length
            have hle := H.act_le s rule ((vals.take rule.expansion.length).reverse)
            obtain ⟨hg1, hv1⟩ := H.act_good s rule _ hg hargs
            have hst := H.act_stable s rule _ hg hargs
            cases hact : act s rule ((vals.take rule.expansion.length).reverse) with
            | mk s1 res =>
              rw [hact] at hle hg1 hv1 hst
              simp only at hle hg1 hv1 hst
              cases res with
              | error e =>
                simp only [feed, ha, hr, hact]
                refine ⟨⟨hg1, fun st vs o h => by cases h⟩, fun s2 hl2 hg2 => ?_⟩
                rw [hst s2 hl2 hg2]
              | ok v =>
                have hvals1 : ∀ x ∈ v :: vals.drop rule.expansion.length, VOK s1 x := by
                  intro x hx
                  rcases List.mem_cons.mp hx with rfl | hx
                  · exact hv1 x rfl
                  · exact H.vok_mono s s1 x hle (hv x (List.mem_of_mem_drop hx))
                cases hdrop : (q :: rest).drop rule.expansion.length with
                | nil =>
                  simp only [feed, ha, hr, hact, hdrop]
                  refine ⟨⟨hg1, fun st vs o h => by cases h⟩, fun s2 hl2 hg2 => ?_⟩
                  rw [hst s2 hl2 hg2]
                | cons q0 rest0 =>
                  cases hgo : t.action? q0 rule.origin with
                  | none =>
                    simp only [feed, ha, hr, hact, hdrop, hgo]
                    refine ⟨⟨hg1, fun st vs o h => by cases h⟩, fun s2 hl2 hg2 => ?_⟩
                    rw [hst s2 hl2 hg2]
                  | some g =>
                    cases g with
                    | reduce _ =>
                      simp only [feed, ha, hr, hact, hdrop, hgo]
                      refine ⟨⟨hg1, fun st vs o h => by cases h⟩, fun s2 hl2 hg2 => ?_⟩
                      rw [hst s2 hl2 hg2]
                    | shift q1 =>
                      by_cases hend : (isEnd && q1 == endS) = true
                      · simp only [feed, ha, hr, hact, hdrop, hgo, hend, if_true]
                        refine ⟨⟨hg1, fun st vs o h => ?_⟩, fun s2 hl2 hg2 => ?_⟩
                        · injection h with h
                          simp only [Prod.mk.injEq] at h
                          obtain ⟨_, h2, h3⟩ := h
                          subst h2
                          exact ⟨hvals1, fun w hw => by rw [← h3] at hw; injection hw with hw; rw [← hw]; exact hv1 v rfl⟩
                        · rw [hst s2 hl2 hg2]
                      · simp only [feed, ha, hr, hact, hdrop, hgo, hend, Bool.false_eq_true, if_false]
                        obtain ⟨ihg, ihs⟩ := ih s1 (q1 :: q0 :: rest0) (v :: vals.drop rule.expansion.length) hg1 hvals1
                        refine ⟨ihg, fun s2 hl2 hg2 => ?_⟩
                        -- s1 ≤ (rest of the run) ≤ s2
                        have hmid := feed_rel t rules endS act mk Le H.le_refl H.le_trans H.act_le tok isEnd fuel s1
                          (q1 :: q0 :: rest0) (v :: vals.drop rule.expansion.length)
                        rw [hst s2 (H.le_trans _ _ _ hmid hl2) hg2]
                        simp only
                        exact ihs s2 hl2 hg2

end
end Measured

namespace Measured

section
variable {σ V : Type} {t : LRTable} {rules : List GRule} {endS : Nat}
  {act : σ → GRule → List V → σ × Except Exc V} {mk : Tok → V}
  {Good : σ → Prop} {Le : σ → σ → Prop} {VOK : σ → V → Prop}

theorem parseLoop_stable (H : StableActs act mk Good Le VOK) (lc : LexConf) :
    ∀ (fuel : Nat) (input : List Char) (s : σ) (stack : List Nat) (vals : List V), Good s → (∀ v ∈ vals, VOK s v) →
      ∀ s2, Le (parseLoop t rules endS lc act mk fuel input s stack vals).1 s2 → Good s2 →
        parseLoop t rules endS lc act mk fuel input s2 stack vals =
          (s2, (parseLoop t rules endS lc act mk fuel input s stack vals).2) := by
  intro fuel
  induction fuel with
  | zero => intro input s stack vals _ _ s2 _ _; rfl
  | succ fuel ih =>
    intro input s stack vals hg hv s2 hl2 hg2
    cases input with
    | nil =>
      obtain ⟨_, hfs⟩ := feed_stable (t := t) (rules := rules) (endS := endS) H ⟨"$END", ""⟩ true 4096 s stack vals hg hv
      simp only [parseLoop] at hl2 ⊢
      cases hf : feed t rules endS act mk ⟨"$END", ""⟩ true 4096 s stack vals with
      | mk s1 r =>
        rw [hf] at hl2 hfs
        have hl1 : Le s1 s2 := by
          cases r with
          | error e => exact hl2
          | ok tr => obtain ⟨st, vs, o⟩ := tr; cases o <;> exact hl2
        rw [hfs s2 hl1 hg2]
        cases r with
        | error e => rfl
        | ok tr => obtain ⟨st, vs, o⟩ := tr; cases o <;> rfl
    | cons ch rest =>
      cases stack with
      | nil => rfl
      | cons q qs =>
        simp only [parseLoop] at hl2 ⊢
        cases hsc : scan lc (acceptsOf t lc q) (ch :: rest) with
        | none => rfl
        | some nm =>
          obtain ⟨name, n⟩ := nm
          rw [hsc] at hl2
          simp only at hl2 ⊢
          by_cases hig : lc.ignore.contains name = true
          · simp only [hig, if_true] at hl2 ⊢
            exact ih _ s (q :: qs) vals hg hv s2 hl2 hg2
          · simp only [hig, Bool.false_eq_true, if_false] at hl2 ⊢
            obtain ⟨⟨hg1, hv1⟩, hfs⟩ := feed_stable (t := t) (rules := rules) (endS := endS) H
              ⟨name, String.ofList ((ch :: rest).take n)⟩ false 4096 s (q :: qs) vals hg hv
            cases hf : feed t rules endS act mk ⟨name, String.ofList ((ch :: rest).take n)⟩ false 4096 s (q :: qs) vals with
            | mk s1 r =>
              rw [hf] at hl2 hfs hg1 hv1
              cases r with
              | error e =>
                simp only at hl2 ⊢
                rw [hfs s2 hl2 hg2]
              | ok tr =>
                obtain ⟨st, vs, o⟩ := tr
                simp only at hl2 ⊢
                have hmid := parseLoop_rel t rules endS act mk lc Le H.le_refl H.le_trans H.act_le fuel
                  ((ch :: rest).drop n) s1 st vs
                rw [hfs s2 (H.le_trans _ _ _ hmid hl2) hg2]
                simp only
                exact ih _ s1 st vs hg1 (hv1 st vs o rfl).1 s2 hl2 hg2

theorem parseLoop_good (H : StableActs act mk Good Le VOK) (lc : LexConf) :
    ∀ (fuel : Nat) (input : List Char) (s : σ) (stack : List Nat) (vals : List V), Good s → (∀ v ∈ vals, VOK s v) →
      Good (parseLoop t rules endS lc act mk fuel input s stack vals).1 := by
  intro fuel
  induction fuel with
  | zero => intro input s stack vals hg _; exact hg
  | succ fuel ih =>
    intro input s stack vals hg hv
    cases input with
    | nil =>
      obtain ⟨⟨hg1, _⟩, _⟩ := feed_stable (t := t) (rules := rules) (endS := endS) H ⟨"$END", ""⟩ true 4096 s stack vals hg hv
      simp only [parseLoop]
      cases hf : feed t rules endS act mk ⟨"$END", ""⟩ true 4096 s stack vals with
      | mk s1 r =>
        rw [hf] at hg1
        cases r with
        | error e => exact hg1
        | ok tr => obtain ⟨st, vs, o⟩ := tr; cases o <;> exact hg1
    | cons ch rest =>
      cases stack with
      | nil => exact hg
      | cons q qs =>
        simp only [parseLoop]
        cases hsc : scan lc (acceptsOf t lc q) (ch :: rest) with
        | none => exact hg
        | some nm =>
          obtain ⟨name, n⟩ := nm
          simp only
          by_cases hig : lc.ignore.contains name = true
          · simp only [hig, if_true]
            exact ih _ s (q :: qs) vals hg hv
          · simp only [hig, Bool.false_eq_true, if_false]
            obtain ⟨⟨hg1, hv1⟩, _⟩ := feed_stable (t := t) (rules := rules) (endS := endS) H
              ⟨name, String.ofList ((ch :: rest).take n)⟩ false 4096 s (q :: qs) vals hg hv
            cases hf : feed t rules endS act mk ⟨name, String.ofList ((ch :: rest).take n)⟩ false 4096 s (q :: qs) vals with
            | mk s1 r =>
              rw [hf] at hg1 hv1
              cases r with
              | error e => exact hg1
              | ok tr =>
                obtain ⟨st, vs, o⟩ := tr
                exact ih _ s1 st vs hg1 (hv1 st vs o rfl).1

/-- the value a parse returns satisfies the value invariant (in the final state) -/
theorem parseLoop_vok (H : StableActs act mk Good Le VOK) (lc : LexConf) :
    ∀ (fuel : Nat) (input : List Char) (s : σ) (stack : List Nat) (vals : List V), Good s → (∀ v ∈ vals, VOK s v) →
      ∀ v, (parseLoop t rules endS lc act mk fuel input s stack vals).2 = .ok v →
        VOK (parseLoop t rules endS lc act mk fuel input s stack vals).1 v := by
  intro fuel
  induction fuel with
  | zero => intro input s stack vals _ _ v h; cases h
  | succ fuel ih =>
    intro input s stack vals hg hv v h
    cases input with
    | nil =>
      obtain ⟨⟨_, hv1⟩, _⟩ := feed_stable (t := t) (rules := rules) (endS := endS) H ⟨"$END", ""⟩ true 4096 s stack vals hg hv
      simp only [parseLoop] at h ⊢
      cases hf : feed t rules endS act mk ⟨"$END", ""⟩ true 4096 s stack vals with
      | mk s1 r =>
        rw [hf] at hv1 h
        cases r with
        | error e => cases h
        | ok tr =>
          obtain ⟨st, vs, o⟩ := tr
          cases o with
          | none => cases h
          | some w =>
            simp only at h ⊢
            injection h with h; subst h
            exact (hv1 st vs (some w) rfl).2 w rfl
    | cons ch rest =>
      cases stack with
      | nil => cases h
      | cons q qs =>
        simp only [parseLoop] at h ⊢
        cases hsc : scan lc (acceptsOf t lc q) (ch :: rest) with
        | none => rw [hsc] at h; cases h
        | some nm =>
          obtain ⟨name, n⟩ := nm
          rw [hsc] at h
          simp only at h ⊢
          by_cases hig : lc.ignore.contains name = true
          · simp only [hig, if_true] at h ⊢
            exact ih _ s (q :: qs) vals hg hv v h
          · simp only [hig, Bool.false_eq_true, if_false] at h ⊢
            obtain ⟨⟨hg1, hv1⟩, _⟩ := feed_stable (t := t) (rules := rules) (endS := endS) H
              ⟨name, String.ofList ((ch :: rest).take n)⟩ false 4096 s (q :: qs) vals hg hv
            cases hf : feed t rules endS act mk ⟨name, String.ofList ((ch :: rest).take n)⟩ false 4096 s (q :: qs) vals with
            | mk s1 r =>
              rw [hf] at hg1 hv1 h
              cases r with
              | error e => cases h
              | ok tr =>
                obtain ⟨st, vs, o⟩ := tr
                exact ih _ s1 st vs hg1 (hv1 st vs o rfl).1 v h

/-- **A second run from any later state repeats the first.** -/
theorem parseWith_stable (H : StableActs act mk Good Le VOK) (lc : LexConf) (startS : Nat) (s : σ) (text : String)
    (hg : Good s) (s2 : σ) (hl : Le (parseWith t rules startS endS lc act mk s text).1 s2) (hg2 : Good s2) :
    parseWith t rules startS endS lc act mk s2 text = (s2, (parseWith t rules startS endS lc act mk s text).2) :=
  parseLoop_stable H lc _ _ s [startS] [] hg (fun v hv => by cases hv) s2 hl hg2

theorem parseWith_vok (H : StableActs act mk Good Le VOK) (lc : LexConf) (startS : Nat) (s : σ) (text : String)
    (hg : Good s) (v : V) (h : (parseWith t rules startS endS lc act mk s text).2 = .ok v) :
    VOK (parseWith t rules startS endS lc act mk s text).1 v :=
  parseLoop_vok H lc _ _ s [startS] [] hg (fun v hv => by cases hv) v h

theorem parseWith_good (H : StableActs act mk Good Le VOK) (lc : LexConf) (startS : Nat) (s : σ) (text : String)
    (hg : Good s) : Good (parseWith t rules startS endS lc act mk s text).1 :=
  parseLoop_good H lc _ _ s [startS] [] hg (fun v hv => by cases hv)

/-- **Idempotence**: parse, then parse the same text again in the state the first parse left:
    same result, state unchanged. -/
theorem parseWith_idempotent (H : StableActs act mk Good Le VOK) (lc : LexConf) (startS : Nat) (s : σ) (text : String)
    (hg : Good s) :
    parseWith t rules startS endS lc act mk (parseWith t rules startS endS lc act mk s text).1 text =
      parseWith t rules startS endS lc act mk s text :=
  parseWith_stable H lc startS s text hg _ (H.le_refl _) (parseWith_good H lc startS s text hg)

end
end Measured
