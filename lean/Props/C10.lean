/-
  C10 — temperature scales convert by their exact affine definitions.

  A plan is an affine map (Proofs/Affine.lean).  The general theorems below hold for every
  plan; the per-run obligations (Obligations/C10.lean) evaluate the model's planner on the
  generated graph for all 12 ordered pairs of scales with prefixes on either side and check
  the coefficients against the exact definitions C = K − 273.15, F = R − 459.67, R = 9/5 K.
-/
import Proofs.ConvertVal

namespace Measured.C10
open Measured

/-- **Every magnitude, every direction**: the value the model's `convert` returns is
    `A·(m·prefix) + B` with `(A, B)` the coefficients of the plan — one affine map per pair of
    units, independent of the magnitude. -/
theorem convert_affine {c c' : Conv Rat} {q r : Qty Rat} {t : UId}
    (h : CM.exec (convert q t) c = (.ok r, c')) :
    ∃ A B : Rat, r.mag.val = A * ((Pfx.value (c.st.unit! q.unit).pfx : Mag Rat).val * q.mag.val) + B ∧
      r.unit = t := by
  obtain ⟨hu, plan, _, hv⟩ := convert_ok h
  exact ⟨(affineOf (plan.map PlanStep.toV)).1, (affineOf (plan.map PlanStep.toV)).2,
    by rw [hv, applyPlanV_affine], hu⟩

/-- Differences scale by the degree ratio; the offsets cancel. -/
theorem differences_scale (plan : List StepV) (m₁ m₂ : Rat) :
    applyPlanV m₁ plan - applyPlanV m₂ plan = (affineOf plan).1 * (m₁ - m₂) := affine_difference plan m₁ m₂

/-- Equality and ordering of temperatures agree across scales (positive degree ratio). -/
theorem order_agrees {plan : List StepV} (hA : 0 < (affineOf plan).1) (m₁ m₂ : Rat) :
    (m₁ < m₂ ↔ applyPlanV m₁ plan < applyPlanV m₂ plan) ∧
    (m₁ = m₂ ↔ applyPlanV m₁ plan = applyPlanV m₂ plan) := affine_mono hA m₁ m₂

/-- Round trips are the identity up to the rounding of the stored constants. -/
theorem round_trip {p q : List StepV} {ε : Rat}
    (hA : |(affineOf q).1 * (affineOf p).1 - 1| ≤ ε)
    (hB : |(affineOf q).1 * (affineOf p).2 + (affineOf q).2| ≤ ε) (m : Rat) :
    |applyPlanV (applyPlanV m p) q - m| ≤ ε * (|m| + 1) := affine_round_trip hA hB m

/-- A fixed point of the exact definitions is (nearly) a fixed point of the plan: if the
    coefficients are within `tol` of the exact `(α, β)`, the value at `m` is within
    `tol·(|α|·|m| + |β| + slack·…)` of `α·m + β` — in particular absolute zero maps to
    absolute zero. -/
theorem close_to_exact {plan : List StepV} {α β δA δB : Rat}
    (hA : |(affineOf plan).1 - α| ≤ δA) (hB : |(affineOf plan).2 - β| ≤ δB) (m : Rat) :
    |applyPlanV m plan - (α * m + β)| ≤ δA * |m| + δB := by
  rw [applyPlanV_affine]
  have e : (affineOf plan).1 * m + (affineOf plan).2 - (α * m + β)
      = ((affineOf plan).1 - α) * m + ((affineOf plan).2 - β) := by ring
  rw [e]
  calc |((affineOf plan).1 - α) * m + ((affineOf plan).2 - β)|
      ≤ |((affineOf plan).1 - α) * m| + |(affineOf plan).2 - β| := abs_add_le _ _
    _ = |(affineOf plan).1 - α| * |m| + |(affineOf plan).2 - β| := by rw [abs_mul]
    _ ≤ δA * |m| + δB := by
        have : 0 ≤ |m| := abs_nonneg m
        nlinarith

/-! ### non-vacuity: the textbook K → °F plan -/

def kToF : List StepV :=
  [ { ratio := 1, path := [⟨9/5, 0⟩, ⟨1, -45967/100⟩], exp := 1 } ]

example : affineOf kToF = (9/5, -45967/100) := by decide +kernel
example : applyPlanV 0 kToF = -45967/100 ∧ applyPlanV (27315/100) kToF = 32 := by
  constructor <;> (rw [applyPlanV_affine]; norm_num [show affineOf kToF = (9/5, -45967/100) by decide +kernel])

end Measured.C10
