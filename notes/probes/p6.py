from measured import *
from measured import systems, conversions
from measured.conversions import ConversionNotFound
from measured.si import *
from measured.us import *
from measured.iec import *
from decimal import Decimal
import pickle, copy, json
from measured.json import MeasuredJSONEncoder, MeasuredJSONDecoder
def t(label, f):
    try:
        print(label, "->", f())
    except Exception as e:
        print(label, "!!", type(e).__name__, e)
# C08
A = Length.unit("aaa","aaa"); B = Length.unit("bbb","bbb")
t("before", lambda: (1*A).in_unit(B))
A.equals(3*B)
t("after", lambda: (1*A).in_unit(B))
t("after eq", lambda: (1*A)==(3*B))
C = Length.unit("ccc","ccc")
t("C->Meter before", lambda: (1*C).in_unit(Meter))
C.equals(2*A); 
t("C->B", lambda: (1*C).in_unit(B))
B.equals(5*Meter)
t("C->Meter after", lambda: (1*C).in_unit(Meter))
# C12
t("hash eq", lambda: (hash(1*Kilo*Meter), hash(1000*Meter), (1*Kilo*Meter)==(1000*Meter)))
t("hash eq2", lambda: (hash(1*Foot), hash(12*Inch), (1*Foot)==(12*Inch)))
t("hash int/float", lambda: (hash(1*Meter)==hash(1.0*Meter)))
m1 = Measurement(10*Meter, 1); m2 = Measurement(10.5*Meter, 0.1)
t("meas eq sym", lambda: (m1==m2, m2==m1))
t("approx sym", lambda: ((5.2*Meter)==approximately(5*Meter,0.3), approximately(5*Meter,0.3)==(5.2*Meter)))
t("q == m", lambda: ((10.5*Meter)==m1, m1==(10.5*Meter)))
t("Level sym", lambda: ((100*Watt)==(20*Decibel[1*Watt]), (20*Decibel[1*Watt])==(100*Watt)))
t("level vs meas", lambda: ((20*Decibel[1*Watt])==approximately(100*Watt), approximately(100*Watt)==(20*Decibel[1*Watt])))
t("trichotomy ft/in", lambda: [((1*Foot)<(12*Inch)), ((1*Foot)==(12*Inch)), ((1*Foot)>(12*Inch))])
t("lt dir", lambda: ((1*Foot)<(13*Inch), (13*Inch)>(1*Foot), (13*Inch)<(1*Foot)))
# C13
for u in [Mega*Meter**-1, Kilo*Meter**2, (Kilo*Meter)**2, Kilo*Kilo*Gram, Kilo*Gram, Milli*Inch, Kibi*Byte, Kilo*Mebi*Bit, Meter/Second, Deca*Meter, Pico*Hour, Peta*Hectare, Hecto*Are if 'Are' in globals() else Hectare, Centi*Day, Yocto*Day, Milli*Minute, Kilo*Meter*Second**-2, (Kilo*Meter)**-2, Milli*Tesla, Tera*Meter, Milli*Meter/ (Kilo*Second), Femto*Tonne, Pico*Coulomb]:
    s = str(u)
    try:
        p = Unit.parse(s)
        ok = p is u
        same = (1*p) == (1*u)
    except Exception as e:
        p = f"{type(e).__name__}: {e}"; ok = False; same=None
    print(repr(s), "->", str(p)[:60], "identical" if ok else "NOT IDENTICAL", same)
