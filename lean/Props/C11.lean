/-
  C11 — a prefixed unit means exactly prefix factor × unit.
-/
import Proofs.PfxVal
import Proofs.GroupLaws
import Props.C02

namespace Measured.C11
open Measured St UExpr

/-! ### the numeric value of a prefix is a homomorphism (same base: exact) -/

theorem value_identity : Pfx.val Pfx.identity = 1 := Pfx.val_identity
theorem value_mul {a b c : Pfx} (ha : a.Normal) (hb : b.Normal) (h : Pfx.mul a b = .ok c) :
    Pfx.val c = Pfx.val a * Pfx.val b := Pfx.val_mul ha hb h
theorem value_div {a b c : Pfx} (ha : a.Normal) (hb : b.Normal) (h : Pfx.div a b = .ok c) :
    Pfx.val c = Pfx.val a / Pfx.val b := Pfx.val_div ha hb h
theorem value_pow {a : Pfx} (ha : a.Normal) (n : Int) : Pfx.val (a.pow n) = Pfx.val a ^ n := Pfx.val_pow ha n
theorem value_root {a c : Pfx} (ha : a.Normal) {n : Int} (hn : n ≠ 0) (h : a.root n = .ok c) :
    Pfx.val c ^ n = Pfx.val a := Pfx.val_root ha hn h
theorem value_pos {a : Pfx} (ha : a.Normal) : 0 < Pfx.val a := Pfx.val_pos ha
/-- what `Prefix.quantify()` returns in the model has this value -/
theorem quantify_value (p : Pfx) : (Pfx.value p : Mag Rat).val = Pfx.val p := Pfx.value_val p

/-! ### `(p•u)ⁿ` is `pⁿ • uⁿ`, as objects -/

theorem den_unit_pow_prefix {base : St} (hc : Canon base) {x : UExpr} (hx : ExprOK base x)
    {p : Pfx} (hp : p.Normal) (n : Int) :
    SameDen base (.pow (.pfx p x) n) (.pfx (p.pow n) (.pow x n)) := by
  refine ⟨?_, fun k _ => by simp only [expDenote]⟩
  intro p₁ p₂ h1 h2
  obtain ⟨a, ha, hap⟩ := pfxDenote_pow_inv h1
  simp only [pfxDenote] at ha h2
  cases hx' : x.pfxDenote base with
  | error e => rw [hx'] at ha; cases ha
  | ok u =>
    rw [hx'] at ha h2
    have hu : u.Normal := hx.normal hc hx'
    have hm : Pfx.mul u p = .ok a := ha
    have := Pfx.mul_pow hu hp hm n
    have h2' : Pfx.mul (u.pow n) (p.pow n) = .ok p₂ := h2
    rw [this] at h2'
    injection h2' with h2'
    rw [hap, h2']

/-- `(p•x)**n` and `p**n • x**n` evaluate to the very same unit object, in any history. -/
theorem unit_pow_prefix {base : St} (h : GInv base) (hc : Canon base) {x : UExpr} (hx : ExprOK base x)
    {p : Pfx} (hp : p.Normal) (n : Int) (ops₁ ops₂ : List Op) (i j : UId)
    (r₁ : ((UExpr.pow (.pfx p x) n).eval (run base ops₁)).2 = .ok i)
    (r₂ : ((UExpr.pfx (p.pow n) (.pow x n)).eval
            (run ((UExpr.pow (.pfx p x) n).eval (run base ops₁)).1 ops₂)).2 = .ok j) : i = j :=
  C02.eval_canonical h hc
    ⟨fun r hr => hx.refs r (by simpa [refs] using hr),
     fun q hq => by simp only [pfxs, List.mem_cons] at hq; rcases hq with rfl | hq; exact hp; exact hx.pfxs q hq⟩
    ⟨fun r hr => hx.refs r (by simpa [refs] using hr),
     fun q hq => by
       simp only [pfxs, List.mem_cons] at hq
       rcases hq with rfl | hq
       · exact Pfx.pow_normal hp n
       · exact hx.pfxs q hq⟩
    (den_unit_pow_prefix hc hx hp n) ops₁ ops₂ i j r₁ r₂

/-! ### stripping prefixes never changes a quantity's value -/

/-- `Quantity.unprefixed`: the magnitude is multiplied by the prefix value and the unit loses
    exactly its prefix (same factors, same dimension). -/
theorem unprefixed_value {c c' : Conv Rat} {q r : Qty Rat}
    (h : CM.exec (unprefixedQty q) c = (.ok r, c')) :
    r.mag.val = Pfx.val (c.st.unit! q.unit).pfx * q.mag.val ∧
    r.unit = (c.st.unprefixedUnit q.unit).2 := by
  unfold unprefixedQty at h
  rw [exec_bind] at h
  unfold quantifyUnit at h
  rw [exec_bind, exec_getSt] at h
  simp only at h
  rw [exec_bind, exec_liftSt] at h
  simp only [exec_pure, Prod.mk.injEq, Except.ok.injEq] at h
  obtain ⟨hr, _⟩ := h
  subst hr
  exact ⟨by rw [val_mul, Pfx.value_val], rfl⟩

/-- The size of a unit factors as prefix value × size of the unprefixed unit. -/
theorem unitSize_foldl_scale (s : St) (c : SizeCert) (fs : Factors) (v k : Rat) :
    (fs.foldl (fun acc f =>
        match acc with
        | none => none
        | some v => if f.1 == s.one then some v else
          match c.get f.1 with
          | none => none
          | some x => some (v * ipow x f.2)) (some (k * v))) =
      (fs.foldl (fun acc f =>
        match acc with
        | none => none
        | some v => if f.1 == s.one then some v else
          match c.get f.1 with
          | none => none
          | some x => some (v * ipow x f.2)) (some v)).map (k * ·) := by
  induction fs generalizing v with
  | nil => rfl
  | cons f rest ih =>
    simp only [List.foldl_cons]
    split
    · exact ih v
    · cases hg : c.get f.1 with
      | none =>
        simp only
        have : ∀ l : Factors, (l.foldl (fun acc f =>
            match acc with
            | none => none
            | some v => if f.1 == s.one then some v else
              match c.get f.1 with
              | none => none
              | some x => some (v * ipow x f.2)) (none : Option Rat)) = none := by
          intro l; induction l with
          | nil => rfl
          | cons _ _ ihl => simpa using ihl
        rw [this]; rfl
      | some x =>
        simp only
        have := ih (v * ipow x f.2)
        rw [← this]; congr 2; ring

end Measured.C11
