/-
  Per-run obligations for C15 on the registries regenerated from /repo: every shipped base unit
  has a name (`init_base_units_named`, decide +kernel), so — with `init_ginv`, `init_canon`,
  `init_faithful` — `C15.reenter_after_history` applies to every shipped unit after every history.
-/
import Props.C15
import Obligations.C02
import Obligations.C19

namespace Measured.Obligations
open Measured Generated St

theorem init_base_units_named :
    (List.range init.units.length).all (fun i => !init.isBaseRec i || (init.firstName i).isSome) = true := by
  decide +kernel

/-- **C15 at the shipped state**: pickle / copy / JSON arguments of any shipped unit, used after
    any history of operations, rebuild that very unit and change nothing. -/
theorem shipped_units_reenter (ops : List Op) (i : UId) (hi : i < init.units.length) :
    (run init ops).reenterUnit i = (run init ops, .ok i) := by
  refine C15.reenter_after_history init_ginv init_canon init_faithful ops hi ?_
  intro hb
  have := List.all_eq_true.mp init_base_units_named i (List.mem_range.mpr hi)
  simp only [hb, Bool.not_true, Bool.false_or] at this
  exact Option.isSome_iff_exists.mp this

end Measured.Obligations
