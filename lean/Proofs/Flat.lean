/-
  Proofs/Flat.lean — on units whose dimension has exponent gcd 1 (every fundamental dimension:
  length, mass, time, temperature, …) the path search is a PURE function of the two graph tables:
  it leaves the state alone and its result does not depend on what else has been interned.  The
  search never enters `_reduce_dimension`'s root branch there (the gcd-th root with gcd 1 is the unit
  itself, raising to the power 1 interns nothing).
-/
import Proofs.PlanNear

namespace Measured
open St

/-! ### power 1 and root 1 are the identity on interned units -/

theorem Pfx.new_self {p : Pfx} (h : p.Normal) : Pfx.new p.base p.exp = p := by
  unfold Pfx.new
  split
  · next hc =>
    obtain ⟨hb, he⟩ := hc
    exact absurd (h.2 he) hb
  · rfl

theorem simplify_norm {one : UId} {fs : Factors} (h : Norm one fs) : simplify one fs = fs := by
  rcases h with rfl | ⟨hs, ho, hne⟩
  · simp [simplify]
  · rcases simplify_cases one fs with ⟨_, h2⟩ | ⟨h1, _⟩
    · rw [filter_eq_self_of hs ho] at h2; exact absurd h2 hne
    · rw [h1, filter_eq_self_of hs ho]

theorem newUnit_self {s : St} (hc : Canon s) {a : UId} (ha : a < s.units.length) (d : Dim) :
    s.newUnit (s.unit! a).pfx (s.unit! a).factors d = (s, a) := by
  have hu : s.unit! a = s.units[a] := unit!_eq ha
  have hf : findUnit s.units (s.unit! a).pfx (s.unit! a).factors = some a :=
    findUnit_of_key hc ha (by rw [hu]) (by rw [hu])
  simp only [newUnit, hf]

theorem powUnit_one {s : St} (hc : Canon s) {a : UId} (ha : a < s.units.length) : s.powUnit a 1 = (s, a) := by
  unfold powUnit
  simp only
  have h1 : (s.unit! a).pfx.pow 1 = (s.unit! a).pfx := by
    unfold Pfx.pow; rw [Int.mul_one]; exact Pfx.new_self (canon_pfx hc ha)
  have h2 : ((s.unit! a).factors.map (fun p => (p.1, p.2 * 1))) = (s.unit! a).factors := by
    simp
  rw [h1, h2, simplify_norm (canon_unit hc ha)]
  exact newUnit_self hc ha _

theorem rootUnit_one {s : St} (hc : Canon s) {a : UId} (ha : a < s.units.length) : s.rootUnit a 1 = (s, .ok a) := by
  unfold rootUnit
  have hd : (s.unit! a).dim.root 1 = .ok ((s.unit! a).dim.map (fun x => Int.fdiv x 1)) := by
    unfold Dim.root; simp
  have hp : (s.unit! a).pfx.root 1 = .ok (s.unit! a).pfx := by
    unfold Pfx.root
    simp only [Int.emod_one]
    simp
    exact Pfx.new_self (canon_pfx hc ha)
  have h2 : ((s.unit! a).factors.map (fun f => (f.1, Int.fdiv f.2 1))) = (s.unit! a).factors := by
    simp
  simp only [hd, hp, h2, simplify_norm (canon_unit hc ha)]
  simp [newUnit_self hc ha]

/-! ### the pure search -/

/-- `powHop h 1` without the state -/
def hop1 (h : Hop Rat) : Except Exc (Hop Rat) :=
  match h.scale.powInt 1 with
  | .error e => .error e
  | .ok sc =>
    match h.offset.powInt 1 with
    | .error e => .error e
    | .ok off => .ok { scale := sc, offset := off, unit := h.unit }

def mapHop1 : List (Hop Rat) → Except Exc (List (Hop Rat))
  | [] => .ok []
  | h :: t =>
    match hop1 h with
    | .error e => .error e
    | .ok h' =>
      match mapHop1 t with
      | .error e => .error e
      | .ok t' => .ok (h' :: t')

def flatLoop (recur : UId → UId → List UId → Except Exc (List (Hop Rat) × List UId)) (O : Table (Mag Rat))
    (start stop : UId) : List (UId × Mag Rat) → List (Hop Rat) → List UId → Except Exc (List (Hop Rat) × List UId)
  | [], best, visited => .ok (best, visited)
  | (mid, scale) :: rest, best, visited =>
    if mid == stop then
      match hop1 { scale := scale, offset := (O.get? start mid).getD (.int 0), unit := stop } with
      | .error e => .error e
      | .ok h => .ok ([h], visited)
    else
      match recur mid stop visited with
      | .error e => .error e
      | .ok (path, visited') =>
        if path.isEmpty then flatLoop recur O start stop rest best visited'
        else
          match mapHop1 ({ scale := scale, offset := (O.get? start mid).getD (.int 0), unit := mid } :: path) with
          | .error e => .error e
          | .ok path' =>
            if best.isEmpty || path'.length < best.length then flatLoop recur O start stop rest path' visited'
            else flatLoop recur O start stop rest best visited'

def flatRec (R O : Table (Mag Rat)) : Nat → UId → UId → List UId → Except Exc (List (Hop Rat) × List UId)
  | 0, _, _, _ => .error .unmodelled
  | fuel + 1, start, stop, visited =>
    if start == stop then .ok ([{ scale := .int 1, offset := .int 0, unit := stop }], visited)
    else if visited.contains start then .ok ([], visited)
    else
      match R.get? start stop with
      | some scale => .ok ([{ scale := scale, offset := (O.get? start stop).getD (.int 0), unit := stop }], visited ++ [start])
      | none => flatLoop (flatRec R O fuel) O start stop (R.row start) [] (visited ++ [start])

/-- `_find_path` as a function of the tables alone -/
def flatPath (R O : Table (Mag Rat)) (start stop : UId) : Except Exc (List (Hop Rat)) :=
  match flatRec R O (R.length + 3) start stop [] with
  | .error e => .error e
  | .ok r => .ok r.1

/-! ### the monadic search equals the pure one and leaves the state alone -/

theorem exec_powHop_one {c : Conv Rat} (hc : Canon c.st) {h : Hop Rat} (hu : h.unit < c.st.units.length) :
    CM.exec (powHop h 1) c = (hop1 h, c) := by
  unfold powHop hop1
  rw [exec_bind, exec_liftE]
  cases h1 : h.scale.powInt 1 with
  | error e => rfl
  | ok sc =>
    simp only
    rw [exec_bind, exec_liftE]
    cases h2 : h.offset.powInt 1 with
    | error e => rfl
    | ok off =>
      simp only
      rw [exec_bind, exec_liftSt, powUnit_one hc hu]
      rfl

theorem exec_mapM_powHop_one {c : Conv Rat} (hc : Canon c.st) :
    ∀ (hs : List (Hop Rat)), (∀ h ∈ hs, h.unit < c.st.units.length) →
    CM.exec (hs.mapM (fun h => powHop h 1)) c = (mapHop1 hs, c) := by
  intro hs
  induction hs with
  | nil => intro _; rfl
  | cons h t ih =>
    intro hv
    simp only [List.mapM_cons]
    rw [exec_bind, exec_powHop_one hc (hv h List.mem_cons_self)]
    unfold mapHop1
    cases h1 : hop1 h with
    | error e => rfl
    | ok h' =>
      simp only
      rw [exec_bind, ih (fun x hx => hv x (List.mem_cons_of_mem _ hx))]
      cases h2 : mapHop1 t with
      | error e => rfl
      | ok t' => rfl

theorem hop1_unit {h h' : Hop Rat} (hx : hop1 h = .ok h') : h'.unit = h.unit := by
  unfold hop1 at hx
  split at hx
  · cases hx
  · split at hx
    · cases hx
    · injection hx with hx; subst hx; rfl

theorem mapHop1_units : ∀ {hs hs' : List (Hop Rat)}, mapHop1 hs = .ok hs' → ∀ h' ∈ hs', ∃ h ∈ hs, h'.unit = h.unit := by
  intro hs
  induction hs with
  | nil => intro hs' hx h' hh; unfold mapHop1 at hx; injection hx with hx; subst hx; cases hh
  | cons a t ih =>
    intro hs' hx h' hh
    unfold mapHop1 at hx
    cases h1 : hop1 a with
    | error e => rw [h1] at hx; cases hx
    | ok a' =>
      rw [h1] at hx
      simp only at hx
      cases h2 : mapHop1 t with
      | error e => rw [h2] at hx; cases hx
      | ok t' =>
        rw [h2] at hx
        simp only at hx
        injection hx with hx; subst hx
        rcases List.mem_cons.1 hh with rfl | hh
        · exact ⟨a, List.mem_cons_self, hop1_unit h1⟩
        · obtain ⟨h, hh1, hh2⟩ := ih h2 h' hh
          exact ⟨h, List.mem_cons_of_mem _ hh1, hh2⟩

/-- what the purity proof needs of the state and graph: canonical interning, valid edges between units of
    one dimension -/
structure FlatOK (c : Conv Rat) : Prop where
  canon : Canon c.st
  inv   : Inv c.st
  edges : ∀ a b m, (b, m) ∈ c.ratios.row a → a < c.st.units.length ∧ b < c.st.units.length ∧
    c.st.dimOfUnit a = c.st.dimOfUnit b

theorem FlatOK.ofNear {lb ub : Rat} {σ : UId → Rat} {c : Conv Rat} (hg : GraphNear lb ub σ c) (hw : GraphWF c) : FlatOK c :=
  ⟨hg.canon, hg.inv, fun a b m hm => ⟨(hg.edges a b m hm).1, (hg.edges a b m hm).2.1, hw.dims a b m hm⟩⟩

theorem isNumber_gcdAll {d : Dim} (h : d.isNumber = true) : d.gcdAll = 0 := by
  unfold Dim.isNumber at h
  unfold Dim.gcdAll
  apply gcd_foldl_all_zero
  intro e he
  have := List.all_eq_true.1 h e he
  simpa using this

theorem reduceDimension_flat {c : Conv Rat} {start stop : UId} (hc : Canon c.st)
    (hs : start < c.st.units.length) (ht : stop < c.st.units.length)
    (hd : c.st.dimOfUnit start = c.st.dimOfUnit stop) (hg1 : (c.st.dimOfUnit start).gcdAll = 1) :
    CM.exec (reduceDimension start stop) c = (.ok (1, start, stop), c) := by
  unfold reduceDimension
  rw [exec_bind, exec_getSt]
  simp only
  have hbeq : (c.st.dimOfUnit start == c.st.dimOfUnit stop) = true := by rw [hd]; simp
  rw [exec_bind, hbeq, cassert_true]
  simp only
  have hnum' : (c.st.dimOfUnit start).isNumber = false := by
    cases hn : (c.st.dimOfUnit start).isNumber with
    | false => rfl
    | true => have := isNumber_gcdAll hn; omega
  simp only [hnum', Bool.false_eq_true, ↓reduceIte]
  rw [exec_tryCatch, exec_bind, exec_bind, exec_liftStE, hg1]
  simp only [Nat.cast_one, rootUnit_one hc hs]
  rw [exec_bind, exec_liftStE]
  simp only [rootUnit_one hc ht, exec_pure]

/-- the recursive call is pure on units of the flat dimension -/
def RecurFlat (c : Conv Rat) (D : Dim) (stop : UId)
    (recur : UId → UId → List UId → CM Rat (List (Hop Rat) × List UId))
    (frec : UId → UId → List UId → Except Exc (List (Hop Rat) × List UId)) : Prop :=
  ∀ (a : UId) (v : List UId), a < c.st.units.length → c.st.dimOfUnit a = D →
    CM.exec (recur a stop v) c = (frec a stop v, c) ∧
    ∀ p v', frec a stop v = .ok (p, v') → ∀ h ∈ p, h.unit < c.st.units.length

theorem pathLoop_flat {c : Conv Rat} (hf : FlatOK c) {D : Dim} {start stop : UId}
    {recur : UId → UId → List UId → CM Rat (List (Hop Rat) × List UId)}
    {frec : UId → UId → List UId → Except Exc (List (Hop Rat) × List UId)}
    (hrec : RecurFlat c D stop recur frec) (hs : c.st.dimOfUnit start = D) (ht : stop < c.st.units.length) :
    ∀ (items : List (UId × Mag Rat)) (best : List (Hop Rat)) (visited : List UId),
      (∀ it ∈ items, it ∈ c.ratios.row start) → (∀ h ∈ best, h.unit < c.st.units.length) →
      CM.exec (pathLoop recur start stop 1 items best visited) c =
        (flatLoop frec c.offsets start stop items best visited, c) ∧
      ∀ p v', flatLoop frec c.offsets start stop items best visited = .ok (p, v') → ∀ h ∈ p, h.unit < c.st.units.length := by
  intro items
  induction items with
  | nil =>
    intro best visited _ hb
    refine ⟨by unfold pathLoop flatLoop; rfl, ?_⟩
    intro p v' hx
    unfold flatLoop at hx
    injection hx with hx
    simp only [Prod.mk.injEq] at hx
    obtain ⟨rfl, _⟩ := hx
    exact hb
  | cons it rest ih =>
    intro best visited hit hb
    obtain ⟨mid, scale⟩ := it
    obtain ⟨_, hmm, hdm⟩ := hf.edges start mid scale (hit _ List.mem_cons_self)
    have hrest : ∀ it ∈ rest, it ∈ c.ratios.row start := fun x hx => hit x (List.mem_cons_of_mem _ hx)
    unfold pathLoop flatLoop
    rw [exec_bind, exec_getThe']
    simp only
    by_cases hms' : (mid == stop) = true
    · simp only [hms', ↓reduceIte]
      rw [exec_bind, exec_powHop_one hf.canon (h := { scale := scale, offset := ((c.offsets.get? start mid).getD (.int 0)), unit := stop }) ht]
      cases h1 : hop1 { scale := scale, offset := ((c.offsets.get? start mid).getD (.int 0)), unit := stop } with
      | error e => exact ⟨rfl, by intro p v' hx; cases hx⟩
      | ok h' =>
        simp only [exec_pure]
        refine ⟨by first | rfl | trivial, ?_⟩
        intro p v' hx
        injection hx with hx
        simp only [Prod.mk.injEq] at hx
        obtain ⟨rfl, _⟩ := hx
        intro h hh
        simp only [List.mem_singleton] at hh
        subst hh
        rw [hop1_unit h1]; exact ht
    · simp only [hms', Bool.false_eq_true, ↓reduceIte]
      obtain ⟨hr1, hr2⟩ := hrec mid visited hmm (by rw [← hdm]; exact hs)
      rw [exec_bind, hr1]
      cases hfr : frec mid stop visited with
      | error e => exact ⟨rfl, by intro p v' hx; cases hx⟩
      | ok res =>
        obtain ⟨path, vis1⟩ := res
        simp only
        have hpu := hr2 path vis1 hfr
        by_cases hpe : path.isEmpty = true
        · simp only [hpe, ↓reduceIte]
          exact ih best vis1 hrest hb
        · simp only [hpe, Bool.false_eq_true, ↓reduceIte]
          have hunits : ∀ h ∈ ({ scale := scale, offset := ((c.offsets.get? start mid).getD (.int 0)), unit := mid } : Hop Rat) :: path,
              h.unit < c.st.units.length := by
            intro h hh
            rcases List.mem_cons.1 hh with rfl | hh
            · exact hmm
            · exact hpu h hh
          rw [exec_bind, exec_mapM_powHop_one hf.canon _ hunits]
          cases hm1 : mapHop1 ({ scale := scale, offset := ((c.offsets.get? start mid).getD (.int 0)), unit := mid } :: path) with
          | error e => exact ⟨rfl, by intro p v' hx; cases hx⟩
          | ok path2 =>
            simp only
            have hp2 : ∀ h ∈ path2, h.unit < c.st.units.length := by
              intro h hh
              obtain ⟨h0, hh0, e0⟩ := mapHop1_units hm1 h hh
              rw [e0]; exact hunits h0 hh0
            by_cases hbetter : (best.isEmpty || decide (path2.length < best.length)) = true
            · simp only [hbetter, ↓reduceIte]
              exact ih path2 vis1 hrest hp2
            · simp only [hbetter, Bool.false_eq_true, ↓reduceIte]
              exact ih best vis1 hrest hb

/-- **On a flat dimension the search is the pure function `flatRec` of the two tables and does not
    touch the state.** -/
theorem findPathRec_flat {c : Conv Rat} (hf : FlatOK c) {D : Dim} (hD : D.gcdAll = 1) {stop : UId}
    (ht : stop < c.st.units.length) (hdt : c.st.dimOfUnit stop = D) :
    ∀ fuel, RecurFlat c D stop (findPathRec (α := Rat) fuel) (flatRec c.ratios c.offsets fuel) := by
  intro fuel
  induction fuel with
  | zero =>
    intro a v _ _
    refine ⟨by unfold findPathRec flatRec; rfl, ?_⟩
    intro p v' hx
    unfold flatRec at hx
    cases hx
  | succ fuel ih =>
    intro start visited hs hds
    unfold findPathRec flatRec
    by_cases hse : (start == stop) = true
    · simp only [hse, ↓reduceIte, exec_pure]
      refine ⟨by first | rfl | trivial, ?_⟩
      intro p v' hx
      injection hx with hx
      simp only [Prod.mk.injEq] at hx
      obtain ⟨rfl, _⟩ := hx
      intro h hh
      simp only [List.mem_singleton] at hh
      subst hh
      exact ht
    · simp only [hse, Bool.false_eq_true, ↓reduceIte]
      by_cases hvis : visited.contains start = true
      · simp only [hvis, ↓reduceIte, exec_pure]
        refine ⟨by first | rfl | trivial, ?_⟩
        intro p v' hx
        injection hx with hx
        simp only [Prod.mk.injEq] at hx
        obtain ⟨rfl, _⟩ := hx
        intro h hh; cases hh
      · simp only [hvis, Bool.false_eq_true, ↓reduceIte]
        rw [exec_bind, exec_getThe']
        simp only
        unfold directEdge
        cases hdir : c.ratios.get? start stop with
        | some scale =>
          simp only [Option.map_some, Option.isSome_some, ↓reduceIte, Option.toList_some, exec_pure]
          refine ⟨by first | rfl | trivial, ?_⟩
          intro p v' hx
          injection hx with hx
          simp only [Prod.mk.injEq] at hx
          obtain ⟨rfl, _⟩ := hx
          intro h hh
          simp only [List.mem_singleton] at hh
          subst hh
          exact ht
        | none =>
          simp only [Option.map_none, Option.isSome_none, Bool.false_eq_true, ↓reduceIte]
          rw [exec_bind, reduceDimension_flat hf.canon hs ht (by rw [hds, hdt]) (by rw [hds]; exact hD)]
          simp only
          rw [exec_bind, exec_getThe']
          simp only
          exact pathLoop_flat hf ih hds ht (c.ratios.row start) [] (visited ++ [start]) (fun _ h => h) (by simp)

/-- **`_find_path` on a flat dimension**: a pure function of the tables, state untouched. -/
theorem findPath_flat {c : Conv Rat} (hf : FlatOK c) {start stop : UId}
    (hs : start < c.st.units.length) (ht : stop < c.st.units.length)
    (hd : c.st.dimOfUnit start = c.st.dimOfUnit stop) (hg1 : (c.st.dimOfUnit start).gcdAll = 1) :
    CM.exec (findPath start stop) c = (flatPath c.ratios c.offsets start stop, c) := by
  unfold findPath flatPath
  rw [exec_bind, exec_getThe']
  simp only
  obtain ⟨h1, _⟩ := findPathRec_flat hf hg1 ht hd.symm (c.ratios.length + 3) start [] hs rfl
  rw [exec_bind, h1]
  cases hr : flatRec c.ratios c.offsets (c.ratios.length + 3) start stop [] with
  | error e => rfl
  | ok r => rfl

/-! ### what the pure search returns -/

theorem flatRec_of_empty_row (R O : Table (Mag Rat)) (fuel : Nat) {a b : UId} (hrow : R.row a = []) (hne : a ≠ b) :
    flatRec R O (fuel + 1) a b [] = .ok ([], [a]) := by
  unfold flatRec
  have h1 : (a == b) = false := by simpa using hne
  have h2 : R.get? a b = none := by unfold Table.get?; rw [hrow]; rfl
  simp only [h1, Bool.false_eq_true, ↓reduceIte, List.contains_nil, h2, hrow, List.nil_append]
  unfold flatLoop
  rfl

/-- a non-empty result starts at a unit with a row and ends at a unit that occurs in some row -/
def Ends (R : Table (Mag Rat)) (a b : UId) : Prop :=
  a = b ∨ ((∃ y m, (y, m) ∈ R.row a) ∧ ∃ x m, (b, m) ∈ R.row x)

theorem flatLoop_ends {R O : Table (Mag Rat)} {a b : UId}
    {frec : UId → UId → List UId → Except Exc (List (Hop Rat) × List UId)}
    (hrec : ∀ mid v p v', frec mid b v = .ok (p, v') → p ≠ [] → Ends R mid b) :
    ∀ (items : List (UId × Mag Rat)) (best : List (Hop Rat)) (visited : List UId) (p : List (Hop Rat)) (v' : List UId),
      (∀ it ∈ items, it ∈ R.row a) → (best ≠ [] → Ends R a b) →
      flatLoop frec O a b items best visited = .ok (p, v') → p ≠ [] → Ends R a b := by
  intro items
  induction items with
  | nil =>
    intro best visited p v' _ hb hx hne
    unfold flatLoop at hx
    injection hx with hx
    simp only [Prod.mk.injEq] at hx
    obtain ⟨rfl, _⟩ := hx
    exact hb hne
  | cons it rest ih =>
    intro best visited p v' hit hb hx hne
    obtain ⟨mid, scale⟩ := it
    have hmem := hit _ List.mem_cons_self
    have hrest : ∀ it ∈ rest, it ∈ R.row a := fun x hx => hit x (List.mem_cons_of_mem _ hx)
    unfold flatLoop at hx
    by_cases hms : (mid == b) = true
    · have : mid = b := by simpa using hms
      subst this
      exact Or.inr ⟨⟨mid, scale, hmem⟩, a, scale, hmem⟩
    · simp only [hms, Bool.false_eq_true, ↓reduceIte] at hx
      cases hfr : frec mid b visited with
      | error e => rw [hfr] at hx; cases hx
      | ok res =>
        obtain ⟨path, vis1⟩ := res
        rw [hfr] at hx
        simp only at hx
        by_cases hpe : path.isEmpty = true
        · simp only [hpe, ↓reduceIte] at hx
          exact ih best vis1 p v' hrest hb hx hne
        · simp only [hpe, Bool.false_eq_true, ↓reduceIte] at hx
          have hpne : path ≠ [] := by intro h; rw [h] at hpe; simp at hpe
          have hmidb : mid ≠ b := by simpa using hms
          have hE : Ends R a b := by
            rcases hrec mid visited path vis1 hfr hpne with h | ⟨_, h2⟩
            · exact absurd h hmidb
            · exact Or.inr ⟨⟨mid, scale, hmem⟩, h2⟩
          cases hm1 : mapHop1 ({ scale := scale, offset := (O.get? a mid).getD (.int 0), unit := mid } :: path) with
          | error e => rw [hm1] at hx; cases hx
          | ok path2 =>
            rw [hm1] at hx
            simp only at hx
            by_cases hbetter : (best.isEmpty || decide (path2.length < best.length)) = true
            · simp only [hbetter, ↓reduceIte] at hx
              exact ih path2 vis1 p v' hrest (fun _ => hE) hx hne
            · simp only [hbetter, Bool.false_eq_true, ↓reduceIte] at hx
              exact ih best vis1 p v' hrest hb hx hne

theorem flatRec_ends (R O : Table (Mag Rat)) : ∀ (fuel : Nat) (a b : UId) (v : List UId) (p : List (Hop Rat)) (v' : List UId),
    flatRec R O fuel a b v = .ok (p, v') → p ≠ [] → Ends R a b := by
  intro fuel
  induction fuel with
  | zero => intro a b v p v' hx; unfold flatRec at hx; cases hx
  | succ fuel ih =>
    intro a b v p v' hx hne
    unfold flatRec at hx
    by_cases hse : (a == b) = true
    · exact Or.inl (by simpa using hse)
    · simp only [hse, Bool.false_eq_true, ↓reduceIte] at hx
      by_cases hvis : v.contains a = true
      · simp only [hvis, ↓reduceIte] at hx
        injection hx with hx
        simp only [Prod.mk.injEq] at hx
        exact absurd hx.1.symm hne
      · simp only [hvis, Bool.false_eq_true, ↓reduceIte] at hx
        cases hdir : R.get? a b with
        | some scale =>
          have hmem := Table.get?_some_mem hdir
          exact Or.inr ⟨⟨b, scale, hmem⟩, a, scale, hmem⟩
        | none =>
          rw [hdir] at hx
          simp only at hx
          exact flatLoop_ends (fun mid v1 p1 v1' h1 h2 => ih mid b v1 p1 v1' h1 h2) (R.row a) [] (v ++ [a]) p v'
            (fun _ h => h) (fun h => absurd rfl h) hx hne

theorem flatPath_ends {R O : Table (Mag Rat)} {a b : UId} {p : List (Hop Rat)} (h : flatPath R O a b = .ok p) (hne : p ≠ []) :
    Ends R a b := by
  unfold flatPath at h
  cases hr : flatRec R O (R.length + 3) a b [] with
  | error e => rw [hr] at h; cases h
  | ok r =>
    rw [hr] at h
    simp only at h
    injection h with h
    obtain ⟨p', v'⟩ := r
    simp only at h
    subst h
    exact flatRec_ends R O _ a b [] p' v' hr hne

theorem flatPath_self (R O : Table (Mag Rat)) (a : UId) :
    flatPath R O a a = .ok [{ scale := .int 1, offset := .int 0, unit := a }] := by
  unfold flatPath flatRec
  simp

theorem flatPath_of_empty_row (R O : Table (Mag Rat)) {a b : UId} (hrow : R.row a = []) (hne : a ≠ b) :
    flatPath R O a b = .ok [] := by
  unfold flatPath
  rw [flatRec_of_empty_row R O _ hrow hne]

/-! ### the planner on single-factor units of a flat dimension -/

/-- an error of the search between the base units is the planner's error -/
theorem planConversion_single_err {c c2 c3 : Conv Rat} {start stop u v : UId} {d : Dim} {head : Mag Rat} {e : Exc}
    (hsf : ((c.st.unprefixedUnit stop).1.unit! start).factors = [(u, 1)])
    (htf : ((c.st.unprefixedUnit stop).1.unit! stop).factors = [(v, 1)])
    (hdu : (c.st.unprefixedUnit stop).1.dimOfUnit u = d) (hdv : (c.st.unprefixedUnit stop).1.dimOfUnit v = d)
    (hw : d.weight ≤ 1) (hfac : d.isFactor d = true) (hnum : (d.div d).isNumber = true)
    (hneg : d.any (fun x => decide (x < 0)) = false)
    (hhead : recip (Pfx.value (c.st.unit! stop).pfx : Mag Rat) = .ok head)
    (hfp0 : CM.exec (findPath start stop) { c with st := (c.st.unprefixedUnit stop).1 } = (.ok [], c2))
    (hfp1 : CM.exec (findPath u v) c2 = (.error e, c3)) :
    CM.exec (planConversion start stop) c = (.error e, c3) := by
  unfold planConversion
  rw [exec_bind, exec_getSt]
  simp only
  rw [exec_bind]
  unfold quantifyUnit
  rw [exec_bind, exec_getSt]
  simp only
  rw [exec_bind, exec_liftSt]
  simp only [exec_pure]
  rw [exec_bind, exec_liftE, hhead]
  simp only
  rw [exec_bind, exec_getSt]
  simp only
  rw [exec_bind, hfp0]
  simp only [List.isEmpty_nil, Bool.not_true, Bool.false_eq_true, ↓reduceIte]
  rw [splat_single hsf, splat_single htf, hdu, hdv]
  rw [exec_bind, replaceFactors_light c2 d u hw]
  simp only [List.map_nil]
  rw [exec_bind, replaceFactors_light c2 d v hw]
  simp only [List.mapM_nil]
  rw [exec_bind, exec_pure]
  simp only [List.append_nil, List.nil_append]
  rw [exec_bind, matchFactors_single c2 d u v hfac hnum hneg]
  simp only
  rw [exec_bind, matchFactors_nil]
  simp only [List.map_nil, List.append_nil]
  rw [exec_bind, exec_liftE, cancelFactors_nil]
  simp only
  rw [exec_bind, exec_liftE, cancelFactors_nil]
  simp only [List.append_nil, List.isEmpty_nil]
  rw [exec_bind, cassert_true]
  simp only
  rw [exec_bind, cassert_true]
  simp only
  unfold inlinePaths
  simp only [List.cons_append, List.nil_append, List.mapM_cons, List.mapM_nil]
  rw [exec_bind, exec_bind, hfp1]

theorem dim_single {s : St} (hi : Inv s) {x u : UId} (hx : x < s.units.length) (hu : u < s.units.length)
    (hf : (s.unit! x).factors = [(u, 1)]) : s.dimOfUnit x = s.dimOfUnit u := by
  have h1 : (s.unit! x).dim = s.dimOf (s.unit! x).factors := hi.2 _ (unit!_mem hx)
  have hlen := dimOfUnit_len hi.1 hu
  show (s.unit! x).dim = _
  rw [h1, hf, dimOf_cons, dimOf_nil, Dim.pow_one, ← hlen, Dim.mul_number]

theorem base_unique {s : St} (hc : Canon s) {x u : UId} (hx : x < s.units.length) (hu : u < s.units.length)
    (hxp : (s.unit! x).pfx = Pfx.identity) (hxf : (s.unit! x).factors = [(u, 1)])
    (hub : (s.unit! u).pfx = Pfx.identity ∧ (s.unit! u).factors = [(u, 1)]) : x = u := by
  apply hc.uniq x u hx hu
  · rw [← unit!_eq hx, ← unit!_eq hu, hxp, hub.1]
  · rw [← unit!_eq hx, ← unit!_eq hu, hxf, hub.2]

variable {σ : UId → Rat} {lb ub : Rat}

/-- **Conversions between single-factor units of a flat fundamental dimension are a pure function of
    the graph tables, the two prefixes and the magnitude** — offsets included (temperatures), in every
    state, whatever else has been interned or asked before: with `path = flatPath ratios offsets u v`
    (the pure search between the two base units),
    `result = (path applied to prefix(source)·magnitude) / prefix(target)`. -/
theorem convert_flat_single {c c' : Conv Rat} {q r : Qty Rat} {t u v : UId} {d : Dim}
    (hg : GraphNear lb ub σ c) (hwf : GraphWF c)
    (hq : q.unit < c.st.units.length) (ht : t < c.st.units.length)
    (hu : u < c.st.units.length) (hv : v < c.st.units.length)
    (hsf : (c.st.unit! q.unit).factors = [(u, 1)]) (htf : (c.st.unit! t).factors = [(v, 1)])
    (hub : (c.st.unit! u).pfx = Pfx.identity ∧ (c.st.unit! u).factors = [(u, 1)])
    (hvb : (c.st.unit! v).pfx = Pfx.identity ∧ (c.st.unit! v).factors = [(v, 1)])
    (hdu : c.st.dimOfUnit u = d) (hdv : c.st.dimOfUnit v = d)
    (hw : d.weight ≤ 1) (hnn : d.isNumber = false) (hfac : d.isFactor d = true) (hnum : (d.div d).isNumber = true)
    (hneg : d.any (fun x => decide (x < 0)) = false)
    (h : CM.exec (convert q t) c = (.ok r, c')) :
    r.unit = t ∧ (∃ path : List (Hop Rat), flatPath c.ratios c.offsets u v = .ok path ∧ path ≠ [] ∧
      r.mag.val = applyPathV 1 (Pfx.val (c.st.unit! q.unit).pfx * q.mag.val) (path.map Hop.toV) *
        (1 / Pfx.val (c.st.unit! t).pfx)) ∧
      c' = { c with st := ((c.st.unprefixedUnit q.unit).1.unprefixedUnit t).1 } := by
  have hg1 : d.gcdAll = 1 := by
    have h1 := gcdAll_le_one hw
    have h2 := gcdAll_ne_zero hnn
    have : d.gcdAll ≠ 0 := by intro h0; apply h2; rw [h0]; rfl
    omega
  obtain ⟨hru, plan, hp, hval⟩ := convert_ok h
  refine ⟨hru, ?_⟩
  obtain ⟨ga, fa⟩ := unprefixStepN hg hq
  have wa := hwf.frameN hg fa
  obtain ⟨gb, p0, c2, hfp0, hplan⟩ := planConversion_directN ga (fa.lt hq) (fa.lt ht) hp
  have fb : CFrame { c with st := (c.st.unprefixedUnit q.unit).1 }
      { c with st := ((c.st.unprefixedUnit q.unit).1.unprefixedUnit t).1 } := (unprefixStepN ga (fa.lt ht)).2
  have wb := wa.frameN ga fb
  have fab := fa.trans fb
  have flb : FlatOK { c with st := ((c.st.unprefixedUnit q.unit).1.unprefixedUnit t).1 } := FlatOK.ofNear gb wb
  -- dimensions
  have hdq : c.st.dimOfUnit q.unit = d := by rw [dim_single hg.inv hq hu hsf]; exact hdu
  have hdt : c.st.dimOfUnit t = d := by rw [dim_single hg.inv ht hv htf]; exact hdv
  have hfl0 := findPath_flat flb (fab.lt hq) (fab.lt ht)
    (by rw [fab.ext.dimOfUnit hq, fab.ext.dimOfUnit ht, hdq, hdt]) (by rw [fab.ext.dimOfUnit hq, hdq]; exact hg1)
  rw [hfl0] at hfp0
  simp only [Prod.mk.injEq] at hfp0
  obtain ⟨hfp0, rfl⟩ := hfp0
  have hR : ({ c with st := ((c.st.unprefixedUnit q.unit).1.unprefixedUnit t).1 } : Conv Rat).ratios = c.ratios := rfl
  have hO : ({ c with st := ((c.st.unprefixedUnit q.unit).1.unprefixedUnit t).1 } : Conv Rat).offsets = c.offsets := rfl
  rw [hR, hO] at hfp0
  have hpt : ((c.st.unprefixedUnit q.unit).1.unit! t).pfx = (c.st.unit! t).pfx := fa.pfx ht
  have hptpos : Pfx.val (c.st.unit! t).pfx ≠ 0 := ne_of_gt (Pfx.val_pos (canon_pfx hg.canon ht))
  -- the value of a plan of the common shape
  have hshape : ∀ (path : List (Hop Rat)) (head : Mag Rat), head.val = 1 / Pfx.val (c.st.unit! t).pfx →
      plan = [ { ratio := .int 1, path := path, exp := 1 },
               { ratio := head, path := [{ scale := .int 1, offset := .int 0, unit := c.st.one }], exp := 1 } ] →
      r.mag.val = applyPathV 1 (Pfx.val (c.st.unit! q.unit).pfx * q.mag.val) (path.map Hop.toV) *
        (1 / Pfx.val (c.st.unit! t).pfx) := by
    intro path head hh hpl
    rw [hval, hpl]
    simp only [List.map_cons, List.map_nil, PlanStep.toV, applyPlanV, applyPathV, Hop.toV, val_int, Int.cast_one,
      Int.cast_zero, zpow_one, mul_one, add_zero, hh, Pfx.value_val]
  by_cases hp0 : p0 = []
  · subst hp0
    -- the factor planner pairs the two base units
    have hsf' : (((c.st.unprefixedUnit q.unit).1.unprefixedUnit t).1.unit! q.unit).factors = [(u, 1)] := by
      have := (fab.ext.same q.unit hq).2.1; rw [← hsf]; exact this
    have htf' : (((c.st.unprefixedUnit q.unit).1.unprefixedUnit t).1.unit! t).factors = [(v, 1)] := by
      have := (fab.ext.same t ht).2.1; rw [← htf]; exact this
    have hdu' : ((c.st.unprefixedUnit q.unit).1.unprefixedUnit t).1.dimOfUnit u = d := by
      rw [← hdu]; exact fab.ext.dimOfUnit hu
    have hdv' : ((c.st.unprefixedUnit q.unit).1.unprefixedUnit t).1.dimOfUnit v = d := by
      rw [← hdv]; exact fab.ext.dimOfUnit hv
    obtain ⟨head, hhead⟩ := recip_ok (m := (Pfx.value ((c.st.unprefixedUnit q.unit).1.unit! t).pfx : Mag Rat))
      (by rw [Pfx.value_val, hpt]; exact hptpos)
    have hfl1 := findPath_flat flb (fab.lt hu) (fab.lt hv) (by rw [hdu', hdv']) (by rw [hdu']; exact hg1)
    rw [hR, hO] at hfl1
    have hfp0' : CM.exec (findPath q.unit t) { c with st := ((c.st.unprefixedUnit q.unit).1.unprefixedUnit t).1 } =
        (.ok [], { c with st := ((c.st.unprefixedUnit q.unit).1.unprefixedUnit t).1 }) := by rw [hfl0, hR, hO, hfp0]
    obtain ⟨hhv, _⟩ := recip_val hhead
    rw [Pfx.value_val, hpt] at hhv
    cases hfr : flatPath c.ratios c.offsets u v with
    | error e =>
      rw [hfr] at hfl1
      have := planConversion_single_err (c := { c with st := (c.st.unprefixedUnit q.unit).1 })
        hsf' htf' hdu' hdv' hw hfac hnum hneg hhead hfp0' hfl1
      rw [this] at hp
      simp at hp
    | ok path =>
      rw [hfr] at hfl1
      by_cases hpath : path = []
      · subst hpath
        have := planConversion_single_notFound (c := { c with st := (c.st.unprefixedUnit q.unit).1 })
          hsf' htf' hdu' hdv' hw hfac hnum hneg hhead hfp0' hfl1
        rw [this] at hp
        simp at hp
      · have hpl := planConversion_single (c := { c with st := (c.st.unprefixedUnit q.unit).1 })
          hsf' htf' hdu' hdv' hw hfac hnum hneg hhead hfp0' hfl1 hpath
        rw [hpl] at hp
        simp only [Prod.mk.injEq, Except.ok.injEq] at hp
        obtain ⟨hplan', hc'⟩ := hp
        have hone' : ((c.st.unprefixedUnit q.unit).1).one = c.st.one := fa.ext.one
        rw [hone'] at hplan'
        exact ⟨⟨path, rfl, hpath, hshape path head hhv hplan'.symm⟩, hc'.symm⟩
  · -- the direct search connected the two units: both are the base units themselves (or equal)
    obtain ⟨head, hhv, hpl, hc'⟩ := hplan hp0
    have hhv : head.val = 1 / Pfx.val (c.st.unit! t).pfx := by rw [← hpt]; exact hhv
    have hone' : ((c.st.unprefixedUnit q.unit).1).one = c.st.one := fa.ext.one
    have hpl : plan = [ { ratio := .int 1, path := p0, exp := 1 },
        { ratio := head, path := [{ scale := .int 1, offset := .int 0, unit := c.st.one }], exp := 1 } ] := by
      rw [← hone']; exact hpl
    have hval0 := hshape p0 head hhv hpl
    rcases flatPath_ends hfp0 hp0 with heq | ⟨⟨y, m1, hy⟩, ⟨x, m2, hx⟩⟩
    · -- the same unit
      have huv : u = v := by
        have : (c.st.unit! q.unit).factors = (c.st.unit! t).factors := by rw [heq]
        rw [hsf, htf] at this
        simpa using this
      subst huv
      rw [← heq, flatPath_self] at hfp0
      injection hfp0 with hfp0
      refine ⟨⟨[{ scale := .int 1, offset := .int 0, unit := u }], flatPath_self _ _ _, by simp, ?_⟩, hc'⟩
      rw [hval0, ← hfp0]
      simp [applyPathV, Hop.toV]
    · have hq1 : (c.st.unit! q.unit).pfx = Pfx.identity := (hg.nodes q.unit y m1 hy).1
      have ht1 : (c.st.unit! t).pfx = Pfx.identity := (hg.nodes x t m2 hx).2
      have e1 : q.unit = u := base_unique hg.canon hq hu hq1 hsf hub
      have e2 : t = v := base_unique hg.canon ht hv ht1 htf hvb
      rw [e1, e2] at hfp0
      exact ⟨⟨p0, hfp0, hp0, hval0⟩, hc'⟩

/-- **History independence on flat dimensions** (C08): in any later state of the same graph — more units
    interned, any queries made in between — the same conversion returns the same magnitude, offsets
    included; no exactness of the graph is needed, only that the tables are the same. -/
theorem flat_conversion_state_free {c₁ c₂ c₁' c₂' : Conv Rat} {q r₁ r₂ : Qty Rat} {t u v : UId} {d : Dim}
    (hg₁ : GraphNear lb ub σ c₁) (hw₁ : GraphWF c₁) (hfr : CFrame c₁ c₂) (hg₂ : GraphNear lb ub σ c₂)
    (hq : q.unit < c₁.st.units.length) (ht : t < c₁.st.units.length)
    (hu : u < c₁.st.units.length) (hv : v < c₁.st.units.length)
    (hsf : (c₁.st.unit! q.unit).factors = [(u, 1)]) (htf : (c₁.st.unit! t).factors = [(v, 1)])
    (hub : (c₁.st.unit! u).pfx = Pfx.identity ∧ (c₁.st.unit! u).factors = [(u, 1)])
    (hvb : (c₁.st.unit! v).pfx = Pfx.identity ∧ (c₁.st.unit! v).factors = [(v, 1)])
    (hdu : c₁.st.dimOfUnit u = d) (hdv : c₁.st.dimOfUnit v = d)
    (hw : d.weight ≤ 1) (hnn : d.isNumber = false) (hfac : d.isFactor d = true) (hnum : (d.div d).isNumber = true)
    (hneg : d.any (fun x => decide (x < 0)) = false)
    (h₁ : CM.exec (convert q t) c₁ = (.ok r₁, c₁')) (h₂ : CM.exec (convert q t) c₂ = (.ok r₂, c₂')) :
    r₂.mag.val = r₁.mag.val ∧ r₂.unit = r₁.unit := by
  obtain ⟨e1, ⟨p1, hp1, _, hv1⟩, _⟩ := convert_flat_single hg₁ hw₁ hq ht hu hv hsf htf hub hvb hdu hdv hw hnn hfac hnum hneg h₁
  have sq := hfr.ext.same q.unit hq
  have st := hfr.ext.same t ht
  have su := hfr.ext.same u hu
  have sv := hfr.ext.same v hv
  obtain ⟨e2, ⟨p2, hp2, _, hv2⟩, _⟩ := convert_flat_single hg₂ (hw₁.frameN hg₁ hfr) (hfr.lt hq) (hfr.lt ht) (hfr.lt hu) (hfr.lt hv)
    (sq.2.1.trans hsf) (st.2.1.trans htf) ⟨su.1.trans hub.1, su.2.1.trans hub.2⟩ ⟨sv.1.trans hvb.1, sv.2.1.trans hvb.2⟩
    ((hfr.ext.dimOfUnit hu).trans hdu) ((hfr.ext.dimOfUnit hv).trans hdv) hw hnn hfac hnum hneg h₂
  rw [hfr.ratios, hfr.offsets, hp1] at hp2
  injection hp2 with hp2
  subst hp2
  refine ⟨?_, by rw [e1, e2]⟩
  rw [hv1, hv2, sq.1, st.1]

/-- **C11 at the level of conversions, offsets included**: on a flat dimension a prefix on the source
    only scales the magnitude and a prefix on the target is divided out after the path — two
    conversions whose sources have the same unprefixed value, into targets over the same base unit,
    return the same unprefixed value: `q.in_unit(p·v) · value(p) = q.in_unit(v)`, and
    `(m·(p·u)).in_unit(t) = ((m·value(p))·u).in_unit(t)`. -/
theorem flat_prefix_laws {c c₁' c₂' : Conv Rat} {q₁ q₂ r₁ r₂ : Qty Rat} {t₁ t₂ u v : UId} {d : Dim}
    (hg : GraphNear lb ub σ c) (hwf : GraphWF c)
    (hq₁ : q₁.unit < c.st.units.length) (hq₂ : q₂.unit < c.st.units.length)
    (ht₁ : t₁ < c.st.units.length) (ht₂ : t₂ < c.st.units.length)
    (hu : u < c.st.units.length) (hv : v < c.st.units.length)
    (hsf₁ : (c.st.unit! q₁.unit).factors = [(u, 1)]) (hsf₂ : (c.st.unit! q₂.unit).factors = [(u, 1)])
    (htf₁ : (c.st.unit! t₁).factors = [(v, 1)]) (htf₂ : (c.st.unit! t₂).factors = [(v, 1)])
    (hub : (c.st.unit! u).pfx = Pfx.identity ∧ (c.st.unit! u).factors = [(u, 1)])
    (hvb : (c.st.unit! v).pfx = Pfx.identity ∧ (c.st.unit! v).factors = [(v, 1)])
    (hdu : c.st.dimOfUnit u = d) (hdv : c.st.dimOfUnit v = d)
    (hw : d.weight ≤ 1) (hnn : d.isNumber = false) (hfac : d.isFactor d = true) (hnum : (d.div d).isNumber = true)
    (hneg : d.any (fun x => decide (x < 0)) = false)
    (hsame : Pfx.val (c.st.unit! q₁.unit).pfx * q₁.mag.val = Pfx.val (c.st.unit! q₂.unit).pfx * q₂.mag.val)
    (h₁ : CM.exec (convert q₁ t₁) c = (.ok r₁, c₁')) (h₂ : CM.exec (convert q₂ t₂) c = (.ok r₂, c₂')) :
    r₁.mag.val * Pfx.val (c.st.unit! t₁).pfx = r₂.mag.val * Pfx.val (c.st.unit! t₂).pfx := by
  obtain ⟨_, ⟨p1, hp1, _, hv1⟩, _⟩ := convert_flat_single hg hwf hq₁ ht₁ hu hv hsf₁ htf₁ hub hvb hdu hdv hw hnn hfac hnum hneg h₁
  obtain ⟨_, ⟨p2, hp2, _, hv2⟩, _⟩ := convert_flat_single hg hwf hq₂ ht₂ hu hv hsf₂ htf₂ hub hvb hdu hdv hw hnn hfac hnum hneg h₂
  rw [hp1] at hp2
  injection hp2 with hp2
  subst hp2
  have n1 : Pfx.val (c.st.unit! t₁).pfx ≠ 0 := ne_of_gt (Pfx.val_pos (canon_pfx hg.canon ht₁))
  have n2 : Pfx.val (c.st.unit! t₂).pfx ≠ 0 := ne_of_gt (Pfx.val_pos (canon_pfx hg.canon ht₂))
  rw [hv1, hv2, hsame]
  field_simp

end Measured
