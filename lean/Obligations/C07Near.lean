/-
  Per-run obligations for C07 on the SHIPPED definitions: termination and exception freedom of the
  path search do not need an exactly consistent graph (Proofs/PathTotalN.lean), so on the regenerated
  graph — which the kernel has checked to be well formed (Obligations/C04Near: `rows_ok`) — the search
  returns for EVERY pair of interned units of one dimension, after any public unit operations, and
  `convert` between simple units returns or raises ConversionNotFound, nothing else.
-/
import Proofs.PlanTotalN
import Obligations.C05Near

namespace Measured.Obligations.NearShipped
open Measured Measured.Obligations Measured.Obligations.Direct Generated St

/-- **The path search never raises on the shipped definitions**: for every two interned units of one
    dimension, in every state reached by public unit operations, `_find_path` returns (a path or the
    empty list) — no AssertionError with or without `-O`, no ZeroDivisionError, no KeyError, and the
    model's fuel is not exhausted. -/
theorem shipped_path_search_never_raises (ops : List Op) {c₁ : Conv Rat}
    (hc₁ : c₁ = { shipped with st := run shipped.st ops }) {start stop : UId}
    (hs : start < c₁.st.units.length) (ht : stop < c₁.st.units.length)
    (hd : c₁.st.dimOfUnit start = c₁.st.dimOfUnit stop) :
    ∃ p c', CM.exec (findPath start stop) c₁ = (.ok p, c') := by
  obtain ⟨g, f⟩ := units_graphNear shipped_graphNear ops
  rw [← hc₁] at g f
  exact findPath_totalN trueClosed bnd σS_pos g (shipped_graphWF.frameN shipped_graphNear f) hs ht hd

/-- **Simple units on the shipped definitions: only ConversionNotFound.** -/
theorem shipped_simple_only_not_found (ops : List Op) {c₁ : Conv Rat}
    (hc₁ : c₁ = { shipped with st := run shipped.st ops }) {K : List Dim} (hK : keysOkB K = true)
    {q : Qty Rat} {t : UId} {plan : List (Rough Rat)}
    (hq : q.unit < c₁.st.units.length) (ht : t < c₁.st.units.length)
    (hfs : ∀ f ∈ (c₁.st.unit! q.unit).factors, factorOkB K c₁.st σS f = true)
    (hft : ∀ f ∈ (c₁.st.unit! t).factors, factorOkB K c₁.st σS f = true)
    (hspec : matchSpec (splat c₁.st t).byComplexFirst (splat c₁.st q.unit) (splat c₁.st t) [] = some ([], [], plan))
    (hdims : ∀ r ∈ plan, c₁.st.dimOfUnit r.start = c₁.st.dimOfUnit r.stop) :
    ∃ res c', CM.exec (convert q t) c₁ = (res, c') ∧ ((∃ r, res = .ok r) ∨ res = .error .notFound) := by
  obtain ⟨g, f⟩ := units_graphNear shipped_graphNear ops
  rw [← hc₁] at g f
  obtain ⟨hK1, hKw⟩ := keysOkB_sound hK
  exact convert_simple_totalN bnd σS_pos g (shipped_graphWF.frameN shipped_graphNear f) hq ht
    ⟨hK1, hKw, fun f hf => factorOkB_sound (hfs f hf), fun f hf => factorOkB_sound (hft f hf), hspec⟩ hdims

/-- inhabited: 60 mile/hour → meter/second (the state and units of `shipped_simple_inhabited`) -/
def speedDimsCheck : Bool :=
  (cS.st.unit! mph).factors.all (factorOkB KspeedS cS.st σS) && (cS.st.unit! mps).factors.all (factorOkB KspeedS cS.st σS) &&
  decide (mph < cS.st.units.length) && decide (mps < cS.st.units.length) &&
  (match matchSpec (splat cS.st mps).byComplexFirst (splat cS.st mph) (splat cS.st mps) [] with
   | some (s', t', plan) => s'.isEmpty && t'.isEmpty && plan.all (fun r => cS.st.dimOfUnit r.start == cS.st.dimOfUnit r.stop)
   | none => false)

theorem speed_dims_evaluates : speedDimsCheck = true := by decide +kernel

set_option maxRecDepth 8000 in
theorem shipped_simple_total_inhabited :
    ∃ res c', CM.exec (convert q60 mps) cS = (res, c') ∧ ((∃ r, res = .ok r) ∨ res = .error .notFound) := by
  have hc := speed_dims_evaluates
  unfold speedDimsCheck at hc
  simp only [Bool.and_eq_true, decide_eq_true_eq, List.all_eq_true] at hc
  obtain ⟨⟨⟨⟨hfs, hft⟩, hq⟩, ht⟩, hspec⟩ := hc
  cases hm : matchSpec (splat cS.st mps).byComplexFirst (splat cS.st mph) (splat cS.st mps) [] with
  | none => rw [hm] at hspec; simp at hspec
  | some res =>
    obtain ⟨s', t', plan⟩ := res
    rw [hm] at hspec
    simp only [Bool.and_eq_true, List.isEmpty_iff, List.all_eq_true, beq_iff_eq] at hspec
    obtain ⟨⟨rfl, rfl⟩, hd⟩ := hspec
    exact shipped_simple_only_not_found speedOps (c₁ := cS) rfl speedS_keys (q := q60) (t := mps) hq ht
      (fun f hf => hfs f hf) (fun f hf => hft f hf) hm hd

end Measured.Obligations.NearShipped
