/-
  Per-run obligation for C08: in the current source of conversions.py every function that
  writes the conversion graph (directly or through helpers; entry points only) clears every memoised
  function that reads it.
-/
import Props.C08
import Generated.Caches

namespace Measured.Obligations
open Measured.Generated

def cacheDisciplineOk : Bool :=
  graphMutators.all (fun m =>
    (cachedFns.filter (fun c => graphReaders.contains c)).all (fun c => m.2.contains c)) &&
  !graphMutators.isEmpty

theorem cache_discipline_ok : cacheDisciplineOk = true := by decide

/-- Caches of functions that do not read the graph need no invalidation: the obligation only speaks
    about memoised graph readers (any number of them), so memoising another pure helper is harmless. -/
theorem cached_readers_cleared :
    (cachedFns.filter (fun c => graphReaders.contains c)).all (fun c => graphMutators.all (fun m => m.2.contains c)) = true := by
  decide

end Measured.Obligations
