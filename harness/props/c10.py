"""C10 — temperature scales convert by their exact affine definitions.

Generator: all 12 ordered pairs of kelvin / celsius / Rankine / fahrenheit, every registered
SI prefix on either side (thorough: the full prefix x prefix grid), magnitudes of all three
kinds including zero, absolute zero and values below it; conversions, round trips, and
== / < between temperatures on different scales.
Oracle (implementation only): the closed forms C = K - 273.15, F = R - 459.67, R = 9/5 K in
exact rational arithmetic, with a tolerance of 1e-9 relative to the larger of the result
and the offset scale.
"""
import struct
from decimal import Decimal
from fractions import Fraction as F

from measured import Prefix, Quantity, Unit

from .common import BaseContext

LEVEL_TEXT = ("Lean: every conversion plan is an affine map m -> A*m + B whose coefficients are computed by affineOf "
              "(applyPlanV_affine, for every magnitude); the value returned by the model's convert is that map applied to the "
              "unprefixed magnitude (convert_affine, via convert_ok); differences scale by A, order and equality are preserved "
              "when A > 0, round trips are the identity up to the rounding of the stored constants, and a plan whose coefficients "
              "are within delta of the exact (alpha, beta) stays within delta_A*|m| + delta_B of alpha*m + beta for EVERY m "
              "(close_to_exact - hence absolute zero maps to absolute zero). Per run the kernel evaluates the model's planner on the "
              "graph regenerated from /repo for all 12 ordered pairs of scales (quick: unprefixed and kilo->milli; thorough: the 5x5 "
              "prefix grid, 300 plans) and checks the coefficients against C = K - 273.15, F = R - 459.67, R = 9/5 K within 1e-12. "
              "FOR EVERY PREFIX AND EVERY STATE (Proofs/Flat.lean, Obligations/C10Flat.lean): on units whose dimension has exponent "
              "gcd 1 the path search is proved to be a PURE function of the two graph tables (findPath_flat: it leaves the state alone "
              "and equals flatPath ratios offsets) - so a conversion between units whose single factor is a temperature scale, with "
              "whatever prefixes, after any public unit operations, returns (A*(prefix(source)*m) + B)/prefix(target) with (A, B) "
              "the affine map of the pure path between the two scale units (convert_flat_single), and the kernel checks those 16 maps "
              "on the regenerated graph against the exact definitions within 1e-12 (flat_temperature_ok; "
              "temperature_conversions_all_prefixes; inhabited by 25 kilo-celsius -> milli-fahrenheit); the state a conversion leaves is "
              "again a state of the shipped graph, so conversions chain: there and back returns the magnitude within 1e-12*|m| + "
              "1e-9/prefix for every pair of scales, all prefixes, all magnitudes, all states (temperature_round_trip; the composed "
              "coefficients are checked by the kernel, round_trips_ok), and going through a third scale gives what the direct "
              "conversion gives (temperature_route_independent, routes_ok: all 64 triples). "
              "The model planner is tied to the code by differential execution over all pairs x registered prefixes x magnitudes.")
LEVEL_NOTE = ("Trusted: Lean kernel + Mathlib field/order lemmas; translators gen_init/gen_graph. The closed form for an ARBITRARY "
              "prefix is now a theorem about the model of the planner (single-factor units of a flat dimension), instantiated on the "
              "regenerated graph; the prefix grid evaluation and the correspondence/oracle on all registered prefixes remain as the "
              "tie to the code. IEEE rounding is not modelled (exact rationals; float results compared at 1e-12).")
TECHNIQUE = "Lean 4 proof (plans are affine maps) + kernel evaluation of the planner model on regenerated data + differential correspondence + exact oracle"

THEOREMS = [
    "Measured.C10.convert_affine", "Measured.C10.differences_scale", "Measured.C10.order_agrees",
    "Measured.C10.round_trip", "Measured.C10.close_to_exact", "Measured.applyPlanV_affine",
    "Measured.applyPlan_val", "Measured.convert_ok",
    "Measured.Obligations.temperature_plans_exact", "Measured.Obligations.temperature_units_found",
    "Measured.findPath_flat", "Measured.convert_flat_single", "Measured.flat_conversion_state_free",
    "Measured.Obligations.FlatTemp.flat_temperature_ok", "Measured.Obligations.FlatTemp.temperature_conversions_all_prefixes",
    "Measured.Obligations.FlatTemp.temperature_inhabited",
    "Measured.Obligations.FlatTemp.temperature_conversion_core", "Measured.Obligations.FlatTemp.round_trips_ok",
    "Measured.Obligations.FlatTemp.temperature_round_trip",
    "Measured.Obligations.FlatTemp.routes_ok", "Measured.Obligations.FlatTemp.temperature_route_independent",
    "Measured.Obligations.FlatTemp.temperature_sub",
    "Measured.Obligations.History.after_any_history",
]
# floats/Decimals vs the exact model: an affine conversion subtracts numbers of the size of the
# offsets (273.15, 459.67), so rounding is amplified by the cancellation ratio; the generator keeps
# that ratio below 1e3 and the streams are compared at 1e-9 (the property speaks of "up to rounding")
RTOL = 1e-9
QUICK = {"chunks": 4, "ops": 1200}
THOROUGH = {"chunks": 16, "ops": 6000}
LEAN_TARGETS = ["Props.C10", "Obligations.C10", "Obligations.C10Flat", "Obligations.History"]
THOROUGH_TARGETS = ["ObligationsFull.C10Full"]
RULE = ("(source scale, source prefix, target scale, target prefix, magnitude) tuples: pairs and prefixes enumerated "
        "round-robin so that every ordered pair x every registered SI prefix occurs, magnitudes from a fixed interesting set "
        "plus random; non-trivial = scales differ; distinct by the tuple")

TO_K = {"kelvin": (F(1), F(0)), "celsius": (F(1), F(27315, 100)),
        "Rankine": (F(5, 9), F(0)), "fahrenheit": (F(5, 9), F(45967, 100) * F(5, 9))}


class Context(BaseContext):
    def __init__(self, sess, rng):
        super().__init__(sess, rng)
        self.scale_ids = {n: sess.uid(Unit._by_name[n]) for n in TO_K}
        self.nq = 0


def pval(p):
    return F(p.base) ** p.exponent if p.base else F(1)


def scale_of(u):
    """(scale name, prefix) if `u` is a (possibly prefixed) temperature scale."""
    if len(u.factors) != 1:
        return None
    (f, e), = u.factors.items()
    if e != 1 or f.name not in TO_K:
        return None
    return f.name, u.prefix


def kelvin_value(q):
    s = scale_of(q.unit)
    a, b = TO_K[s[0]]
    return a * F(q.magnitude) * pval(s[1]) + b


def oracle(ctx, line, res):
    f = line.split("\t")
    if f[0] != "X":
        return []
    fails = []
    if f[1] == "conv":
        q, t = ctx.sess.arg(f[2]), ctx.sess.arg(f[3])
        sa, sb = scale_of(q.unit), scale_of(t)
        if sa is None or sb is None:
            return []
        ctx.oracle_checks += 1
        if not res.startswith("ok\tq"):
            return [{"kind": "temperature-conversion-fails", "from": str(q.unit), "to": str(t), "error": res}]
        r = ctx.sess.qs[-1]
        k = kelvin_value(q)
        a, b = TO_K[sb[0]]
        want = (k - b) / a / pval(sb[1])
        got = F(r.magnitude)
        scale = max(abs(want), F(500) / pval(sb[1]))
        if abs(got - want) > F(1, 10**9) * scale:
            fails.append({"kind": "temperature-wrong-value", "from": str(q.unit), "to": str(t),
                          "magnitude": str(q.magnitude), "got": float(got), "want": float(want)})
        if r.unit is not t:
            fails.append({"kind": "temperature-wrong-unit"})
        if isinstance(r.magnitude, Decimal) != isinstance(q.magnitude, Decimal):
            fails.append({"kind": "temperature-decimal-kind", "got": type(r.magnitude).__name__})
    elif f[1] in ("eq", "lt", "le", "gt", "ge", "ne"):
        a, b = ctx.sess.arg(f[2]), ctx.sess.arg(f[3])
        if not (isinstance(a, Quantity) and isinstance(b, Quantity)):
            return []
        if scale_of(a.unit) is None or scale_of(b.unit) is None:
            return []
        ctx.oracle_checks += 1
        ka, kb = kelvin_value(a), kelvin_value(b)
        # stay away from rounding ties
        if abs(ka - kb) <= F(1, 10**9) * max(abs(ka), abs(kb), 1):
            return []
        want = {"eq": ka == kb, "ne": ka != kb, "lt": ka < kb, "le": ka <= kb, "gt": ka > kb, "ge": ka >= kb}[f[1]]
        exp = "ok\tb\t%s" % ("true" if want else "false")
        if res != exp:
            fails.append({"kind": "temperature-comparison", "opname": f[1], "a": str(a), "b": str(b),
                          "got": res, "want": exp})
    return fails


def cancellation_ok(m_exact, sa, p, sb, q):
    """True when converting `m_exact` (in p*sa) to q*sb does not cancel more than 3 digits."""
    a1, b1 = TO_K[sa]
    a2, b2 = TO_K[sb]
    x = a1 * m_exact * pval(p)
    terms = abs(x) + abs(b1) + abs(b2)
    result = abs(x + b1 - b2)
    return result * 1000 >= terms


def nontrivial(ctx, line, res):
    f = line.split("\t")
    if f[0] == "X" and f[1] in ("conv", "eq", "lt", "le", "gt", "ge"):
        return line
    return None


def ftok(x):
    return "f:%016x" % struct.unpack("<Q", struct.pack("<d", float(x)))[0]


def generate(ctx, n_ops):
    rng = ctx.rng
    names = list(TO_K)
    prefixes = [Prefix(0, 0)] + sorted(ctx.si_prefixes, key=lambda p: p.exponent)
    pairs = [(a, b) for a in names for b in names if a != b]
    mags = ["i:0", "i:1", "i:-40", "i:300", ftok(273.15), ftok(-459.67), ftok(-500.5), ftok(37.0),
            "d:1235/100", "d:-27315/100", "i:100", ftok(1e6), ftok(-1e-3)]
    emitted = 0
    k = rng.randrange(10**6)
    while emitted < n_ops:
        k += 1
        a, b = pairs[k % len(pairs)]
        p = prefixes[(k // len(pairs)) % len(prefixes)] if rng.random() < 0.7 else rng.choice(prefixes)
        q = prefixes[(k // (len(pairs) * 3)) % len(prefixes)] if rng.random() < 0.7 else rng.choice(prefixes)
        m = mags[k % len(mags)] if rng.random() < 0.6 else ftok(rng.uniform(-1000, 1000))
        ua = yield "U\tpmul\tp%d:%d\tu%d" % (p.base, p.exponent, ctx.scale_ids[a])
        ub = yield "U\tpmul\tp%d:%d\tu%d" % (q.base, q.exponent, ctx.scale_ids[b])
        emitted += 2
        if not (ua.startswith("ok\tu") and ub.startswith("ok\tu")):
            continue
        ua, ub = int(ua.split("\t")[1][1:]), int(ub.split("\t")[1][1:])
        from impl import parse_mag
        if not cancellation_ok(F(parse_mag(m)), a, p, b, q):
            continue
        res = yield "X\tqnew\t%s\tu%d" % (m, ua)
        emitted += 1
        qa = ctx.nq
        ctx.nq += 1
        res = yield "X\tconv\tq%d\tu%d" % (qa, ub)
        emitted += 1
        if not res.startswith("ok\tq"):
            continue
        qb = ctx.nq
        ctx.nq += 1
        r = rng.random()
        if r < 0.35 and cancellation_ok(F(ctx.sess.qs[qb].magnitude), b, q, a, p):
            # and back
            res = yield "X\tconv\tq%d\tu%d" % (qb, ua)
            emitted += 1
            if res.startswith("ok\tq"):
                ctx.nq += 1
        elif r < 0.75:
            # compare with another temperature on the target scale
            m2 = mags[(k * 7) % len(mags)] if rng.random() < 0.5 else ftok(rng.uniform(-1000, 1000))
            res = yield "X\tqnew\t%s\tu%d" % (m2, ub)
            emitted += 1
            qc = ctx.nq
            ctx.nq += 1
            op = rng.choice(["eq", "lt", "le", "gt", "ge"])
            x, y = (qa, qc) if rng.random() < 0.5 else (qc, qa)
            yield "X\t%s\tq%d\tq%d" % (op, x, y)
            emitted += 1
    yield "STATE"
