/-
  Proofs/MatchRefactor.lean — the model's `matchFactors` (named recursive pieces: `matchCollect`,
  `popAll`, `matchStep`, `foldlM`) is the SAME function as the line-by-line transliteration of
  `_match_factors` with `for` loops, `break`, `continue` and mutable variables that the model used before
  (kept here verbatim as `matchFactorsLoop`).  So the refactoring that made the planner provable did not
  change what is modelled.
-/
import Model.Convert
import Proofs.Monad

namespace Measured

/-- the transliteration of `_match_factors` (the model's former definition, verbatim) -/
def matchFactorsLoop (startF stopF : Splat) : CM Rat (List (Rough Rat) × Splat × Splat) := do
  let toMatch := stopF.byComplexFirst
  let mut startF := startF
  let mut stopF := stopF
  let mut plan : List (Rough Rat) := []
  for stopDim in toMatch do
    let mut dimFactors : List Dim := []
    let mut remaining := stopDim
    for startDim in startF.byComplexFirst do
      if startDim.isFactor remaining then
        dimFactors := dimFactors ++ [startDim]
        remaining := remaining.div startDim
      if remaining.isNumber then break
    match dimFactors with
    | [] => continue
    | d0 :: ds =>
      let discovered := ds.foldl Dim.mul d0
      if discovered != stopDim then continue
      let mut popped : List UId := []
      for d in dimFactors do
        let (u, f') ← liftE (startF.cleanPop d)
        startF := f'
        popped := popped ++ [u]
      let combined ← mulUnits popped
      let (stopUnit, f') ← liftE (stopF.cleanPop stopDim)
      stopF := f'
      let e : Int := if stopDim.any (· < 0) then -1 else 1
      plan := plan ++ [{ ratio := .int 1, start := combined, stop := stopUnit, exp := e }]
  return (plan, startF, stopF)

/-- the inner loop with its `break` is `matchCollect` -/
theorem inner_loop_eq : ∀ (L : List Dim) (acc : List Dim) (remaining : Dim),
    (forIn (m := CM Rat) L ((acc, remaining) : List Dim × Dim) (fun startDim r =>
        if startDim.isFactor r.2 = true then
          if (r.2.div startDim).isNumber = true then pure (ForInStep.done (r.1 ++ [startDim], r.2.div startDim))
          else pure (ForInStep.yield (r.1 ++ [startDim], r.2.div startDim))
        else
          if r.2.isNumber = true then pure (ForInStep.done (r.1, r.2))
          else pure (ForInStep.yield (r.1, r.2)))) =
      pure (matchCollect L acc remaining) := by
  intro L
  induction L with
  | nil => intro acc remaining; rfl
  | cons sd rest ih =>
    intro acc remaining
    simp only [forIn, List.forIn'_cons] at ih ⊢
    unfold matchCollect
    by_cases hf : sd.isFactor remaining = true
    · simp only [hf, ↓reduceIte]
      by_cases hn : (remaining.div sd).isNumber = true
      · simp only [hn, ↓reduceIte, pure_bind]
      · simp only [hn, Bool.false_eq_true, ↓reduceIte, pure_bind]
        exact ih _ _
    · simp only [hf, Bool.false_eq_true, ↓reduceIte]
      by_cases hn : remaining.isNumber = true
      · simp only [hn, ↓reduceIte, pure_bind]
      · simp only [hn, Bool.false_eq_true, ↓reduceIte, pure_bind]
        exact ih _ _

abbrev LoopSt := Splat × Splat × List (Rough Rat)

/-- the `for d in dimension_factors: pop` loop is `popAll` -/
theorem pop_loop_eq : ∀ (ds : List Dim) (f : Splat) (popped : List UId),
    (forIn (m := CM Rat) ds ((f, popped) : Splat × List UId) (fun d b => do
        let __x ← liftE (b.1.cleanPop d)
        pure (ForInStep.yield (__x.2, b.2 ++ [__x.1])))) =
      liftE (popAll ds f popped) := by
  intro ds
  induction ds with
  | nil => intro f popped; simp [popAll, liftE]
  | cons d rest ih =>
    intro f popped
    simp only [forIn, List.forIn'_cons] at ih ⊢
    unfold popAll
    cases hc : f.cleanPop d with
    | error e => simp [liftE]
    | ok x =>
      obtain ⟨u, f'⟩ := x
      simp only [liftE, pure_bind]
      exact ih f' (popped ++ [u])

/-- a loop whose body always yields is a fold -/
theorem yield_loop_eq (g : LoopSt → Dim → CM Rat LoopSt) : ∀ (L : List Dim) (s : LoopSt),
    (forIn (m := CM Rat) L s (fun a b => do let r ← g b a; pure (ForInStep.yield r))) = L.foldlM g s := by
  intro L
  induction L with
  | nil => intro s; rfl
  | cons a rest ih =>
    intro s
    simp only [forIn, List.forIn'_cons, List.foldlM_cons, bind_assoc, pure_bind] at ih ⊢
    congr 1
    funext r
    exact ih r

/-- **The refactoring is the identity**: the loop transliteration and the recursive form of
    `_match_factors` are the same function. -/
theorem matchFactors_refactor (startF stopF : Splat) :
    matchFactorsLoop startF stopF = matchFactors (α := Rat) startF stopF := by
  unfold matchFactorsLoop matchFactors
  simp only
  have hbody : ∀ (a : Dim) (b : LoopSt),
      (do
        let __s ←
          forIn (m := CM Rat) b.1.byComplexFirst (([], a) : List Dim × Dim) fun startDim r =>
              if startDim.isFactor r.2 = true then
                if (r.2.div startDim).isNumber = true then pure (ForInStep.done (r.1 ++ [startDim], r.2.div startDim))
                else pure (ForInStep.yield (r.1 ++ [startDim], r.2.div startDim))
              else
                if r.2.isNumber = true then pure (ForInStep.done (r.1, r.2))
                else pure (ForInStep.yield (r.1, r.2))
        match __s.1 with
          | [] => pure (ForInStep.yield ((b.1, b.2.1, b.2.2) : LoopSt))
          | d0 :: ds =>
            if (List.foldl Dim.mul d0 ds != a) = true then pure (ForInStep.yield ((b.1, b.2.1, b.2.2) : LoopSt))
            else do
              let __s ←
                forIn (m := CM Rat) __s.1 ((b.1, []) : Splat × List UId) fun d b => do
                    let __x ← liftE (b.1.cleanPop d)
                    pure (ForInStep.yield (__x.2, b.2 ++ [__x.1]))
              let combined ← mulUnits __s.2
              let __x ← liftE (b.2.1.cleanPop a)
              pure
                  (ForInStep.yield
                    ((__s.1, __x.2,
                      b.2.2 ++
                        [{ ratio := Mag.int 1, start := combined, stop := __x.1,
                            exp := if (List.any a fun x => decide (x < 0)) = true then -1 else 1 }]) : LoopSt))) =
      (do let r ← matchStep (α := Rat) b a; pure (ForInStep.yield r)) := by
    intro a b
    rw [inner_loop_eq]
    simp only [pure_bind]
    unfold matchStep
    cases hmc : (matchCollect b.1.byComplexFirst [] a).1 with
    | nil => simp
    | cons d0 ds =>
      simp only
      by_cases hne : (List.foldl Dim.mul d0 ds != a) = true
      · simp [hne]
      · simp only [hne, Bool.false_eq_true, ↓reduceIte]
        rw [pop_loop_eq]
        simp only [bind_assoc, pure_bind]
  simp only [hbody]
  rw [yield_loop_eq (fun b a => matchStep (α := Rat) b a)]

end Measured
