/-
  Proofs/ParseGen.lean — what the LR driver inherits from the semantic actions, for EVERY
  table, rule list, lexer and input:
  * a reflexive-transitive relation between semantic states that every action respects is
    respected by the whole parse (`parseWith_rel`), whatever the outcome;
  * an error can only be `parseError` (no action / no token), `unmodelled` (fuel), or one an
    action produced (`parseWith_err`).
-/
import Model.LALR

namespace Measured

section
variable {σ V : Type} (t : LRTable) (rules : List GRule) (endS : Nat)
  (act : σ → GRule → List V → σ × Except Exc V) (mk : Tok → V)

theorem feed_rel (R : σ → σ → Prop) (hrefl : ∀ s, R s s) (htrans : ∀ a b c, R a b → R b c → R a c)
    (hact : ∀ s r args, R s (act s r args).1) (tok : Tok) (isEnd : Bool) :
    ∀ fuel s stack vals, R s (feed t rules endS act mk tok isEnd fuel s stack vals).1 := by
  intro fuel
  induction fuel with
  | zero => intro s stack vals; exact hrefl s
  | succ fuel ih =>
    intro s stack vals
    unfold feed
    split
    · exact hrefl s
    · split
      · exact hrefl s
      · exact hrefl s
      · split
        · exact hrefl s
        · rename_i rule _
          have h1 := hact s rule ((vals.take rule.expansion.length).reverse)
          dsimp only
          split
          · rename_i s' e he
            rw [he] at h1; exact h1
          · rename_i s' v he
            rw [he] at h1
            split
            · exact h1
            · split
              · split
                · exact h1
                · exact htrans _ _ _ h1 (ih _ _ _)
              · exact h1

theorem feed_err (P : Exc → Prop) (hp : P .parseError) (hu : P .unmodelled)
    (hact : ∀ s r args s' e, act s r args = (s', .error e) → P e) (tok : Tok) (isEnd : Bool) :
    ∀ fuel s stack vals s' e, feed t rules endS act mk tok isEnd fuel s stack vals = (s', .error e) → P e := by
  intro fuel
  induction fuel with
  | zero => intro s stack vals s' e h; simp only [feed, Prod.mk.injEq, Except.error.injEq] at h; rw [← h.2]; exact hu
  | succ fuel ih =>
    intro s stack vals s' e h
    unfold feed at h
    split at h
    · simp only [Prod.mk.injEq, Except.error.injEq] at h; rw [← h.2]; exact hp
    · split at h
      · simp only [Prod.mk.injEq, Except.error.injEq] at h; rw [← h.2]; exact hp
      · simp at h
      · split at h
        · simp only [Prod.mk.injEq, Except.error.injEq] at h; rw [← h.2]; exact hp
        · dsimp only at h
          split at h
          · rename_i s1 e1 he
            simp only [Prod.mk.injEq, Except.error.injEq] at h
            rw [← h.2]; exact hact _ _ _ _ _ he
          · split at h
            · simp only [Prod.mk.injEq, Except.error.injEq] at h; rw [← h.2]; exact hp
            · split at h
              · split at h
                · simp at h
                · exact ih _ _ _ _ _ h
              · simp only [Prod.mk.injEq, Except.error.injEq] at h; rw [← h.2]; exact hp

variable (lc : LexConf)

theorem parseLoop_rel (R : σ → σ → Prop) (hrefl : ∀ s, R s s) (htrans : ∀ a b c, R a b → R b c → R a c)
    (hact : ∀ s r args, R s (act s r args).1) :
    ∀ fuel input s stack vals, R s (parseLoop t rules endS lc act mk fuel input s stack vals).1 := by
  intro fuel
  induction fuel with
  | zero => intro input s stack vals; exact hrefl s
  | succ fuel ih =>
    intro input s stack vals
    unfold parseLoop
    split
    · have h := feed_rel t rules endS act mk R hrefl htrans hact ⟨"$END", ""⟩ true 4096 s stack vals
      split <;> rename_i heq <;> rw [heq] at h <;> exact h
    · split
      · exact hrefl s
      · rename_i q qs
        split
        · exact hrefl s
        · rename_i name n _
          simp only
          split
          · exact ih _ _ _ _
          · have h := feed_rel t rules endS act mk R hrefl htrans hact ⟨name, String.ofList (input.take n)⟩ false 4096 s (q :: qs) vals
            split <;> rename_i heq <;> rw [heq] at h
            · exact htrans _ _ _ h (ih _ _ _ _)
            · exact h

theorem parseLoop_err (P : Exc → Prop) (hp : P .parseError) (hu : P .unmodelled)
    (hact : ∀ s r args s' e, act s r args = (s', .error e) → P e) :
    ∀ fuel input s stack vals s' e,
      parseLoop t rules endS lc act mk fuel input s stack vals = (s', .error e) → P e := by
  intro fuel
  induction fuel with
  | zero => intro input s stack vals s' e h; simp only [parseLoop, Prod.mk.injEq, Except.error.injEq] at h; rw [← h.2]; exact hu
  | succ fuel ih =>
    intro input s stack vals s' e h
    unfold parseLoop at h
    split at h
    · split at h
      · simp at h
      · simp only [Prod.mk.injEq, Except.error.injEq] at h; rw [← h.2]; exact hp
      · rename_i s1 e1 heq
        simp only [Prod.mk.injEq, Except.error.injEq] at h
        rw [← h.2]
        exact feed_err t rules endS act mk P hp hu hact _ _ _ _ _ _ _ _ heq
    · split at h
      · simp only [Prod.mk.injEq, Except.error.injEq] at h; rw [← h.2]; exact hp
      · split at h
        · simp only [Prod.mk.injEq, Except.error.injEq] at h; rw [← h.2]; exact hp
        · simp only at h
          split at h
          · exact ih _ _ _ _ _ _ h
          · split at h
            · exact ih _ _ _ _ _ _ h
            · rename_i s1 e1 heq
              simp only [Prod.mk.injEq, Except.error.injEq] at h
              rw [← h.2]
              exact feed_err t rules endS act mk P hp hu hact _ _ _ _ _ _ _ _ heq

theorem parseWith_rel (R : σ → σ → Prop) (hrefl : ∀ s, R s s) (htrans : ∀ a b c, R a b → R b c → R a c)
    (hact : ∀ s r args, R s (act s r args).1) (startS : Nat) (s : σ) (text : String) :
    R s (parseWith t rules startS endS lc act mk s text).1 :=
  parseLoop_rel t rules endS act mk lc R hrefl htrans hact _ _ _ _ _

theorem parseWith_err (P : Exc → Prop) (hp : P .parseError) (hu : P .unmodelled)
    (hact : ∀ s r args s' e, act s r args = (s', .error e) → P e) (startS : Nat) (s : σ) (text : String)
    (s' : σ) (e : Exc) (h : parseWith t rules startS endS lc act mk s text = (s', .error e)) : P e :=
  parseLoop_err t rules endS act mk lc P hp hu hact _ _ _ _ _ _ _ h

end
end Measured
