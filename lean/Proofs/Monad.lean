/-
  Proofs/Monad.lean — running the conversion monad `CM` (exceptions over state; state
  changes persist when an exception is raised, as in Python).
-/
import Model.Quantity

namespace Measured

section
variable {α : Type}

/-- Run a `CM` action from a conversion state. -/
def CM.exec {β} (m : CM α β) (c : Conv α) : Except Exc β × Conv α := (ExceptT.run m).run c

@[simp] theorem exec_pure {β} (a : β) (c : Conv α) : CM.exec (pure a : CM α β) c = (.ok a, c) := rfl

@[simp] theorem exec_throw {β} (e : Exc) (c : Conv α) : CM.exec (throw e : CM α β) c = (.error e, c) := rfl

theorem exec_bind {β γ} (m : CM α β) (f : β → CM α γ) (c : Conv α) :
    CM.exec (m >>= f) c =
      match CM.exec m c with
      | (.ok a, c') => CM.exec (f a) c'
      | (.error e, c') => (.error e, c') := by
  unfold CM.exec
  simp only [ExceptT.run_bind, StateT.run_bind]
  cases h : (ExceptT.run m).run c with
  | mk r c' =>
    cases r with
    | ok a => rfl
    | error e => rfl

variable [Add α] [Sub α] [Mul α] [Div α] [Neg α] [OfNat α 0] [OfNat α 1] [FloatLike α]

@[simp] theorem exec_getSt (c : Conv α) : CM.exec (getSt : CM α St) c = (.ok c.st, c) := rfl

@[simp] theorem exec_liftSt {β} (f : St → St × β) (c : Conv α) :
    CM.exec (liftSt f : CM α β) c = (.ok (f c.st).2, { c with st := (f c.st).1 }) := rfl

theorem exec_liftE {β} (r : Except Exc β) (c : Conv α) :
    CM.exec (liftE r : CM α β) c = (r, c) := by
  cases r <;> rfl

theorem exec_liftStE {β} (f : St → St × Except Exc β) (c : Conv α) :
    CM.exec (liftStE f : CM α β) c = ((f c.st).2, { c with st := (f c.st).1 }) := by
  unfold liftStE
  rw [exec_bind, exec_liftSt]
  cases h : (f c.st).2 <;> simp [h] <;> rfl

/-- `Quantity.unprefixed` always succeeds. -/
theorem exec_unprefixedQty (q : Qty α) (c : Conv α) :
    CM.exec (unprefixedQty q) c =
      (.ok { mag := Mag.mul (Pfx.value (c.st.unit! q.unit).pfx) q.mag, unit := (c.st.unprefixedUnit q.unit).2 },
       { c with st := (c.st.unprefixedUnit q.unit).1 }) := by
  unfold unprefixedQty
  rw [exec_bind]
  unfold quantifyUnit
  rw [exec_bind, exec_getSt]
  simp only
  rw [exec_bind, exec_liftSt]
  simp only [exec_pure]


end
end Measured

namespace Measured
section
variable {α : Type}

theorem exec_tryCatch {β} (m : CM α β) (h : Exc → CM α β) (c : Conv α) :
    CM.exec (tryCatch m h) c =
      match CM.exec m c with
      | (.ok a, c') => (.ok a, c')
      | (.error e, c') => CM.exec (h e) c' := by
  unfold CM.exec
  show (ExceptT.run (ExceptT.tryCatch m h)).run c = _
  unfold ExceptT.tryCatch
  simp only [ExceptT.run_mk, StateT.run_bind]
  cases hm : (ExceptT.run m).run c with
  | mk r c' =>
    have hm' : StateT.run m c = (r, c') := hm
    rw [hm']
    cases r with
    | ok a => rfl
    | error e => rfl

end
end Measured
