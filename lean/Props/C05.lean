/-
  C05 — conversion is an invertible linear scaling, independent of the route taken.

  Linearity, zero and sign hold for EVERY offset-free plan the model can produce, sound or
  not, because a plan is a product of constants.  Self-conversion is proved for the planner
  itself.  Round trip and route independence are stated at full strength and proved under the
  hypothesis that the conversions involved have the right coefficients (which C04's
  obligations establish on the evaluated family, and the oracle checks on the implementation).
-/
import Proofs.ConvertSelf
import Proofs.GraphHist
import Proofs.PlanSingle
import Proofs.PlanSimple

namespace Measured.C05
open Measured

/-- Converting `k·q` gives `k` times the conversion of `q` (any offset-free plan). -/
theorem convert_linear {plan : List StepV} (hf : offsetFree plan) (k m : Rat) :
    applyPlanV (k * m) plan = k * applyPlanV m plan := applyPlanV_linear hf k m

theorem convert_zero {plan : List StepV} (hf : offsetFree plan) : applyPlanV 0 plan = 0 := applyPlanV_zero hf

/-- The sign of the magnitude is preserved (ratios are positive). -/
theorem convert_sign {plan : List StepV} (hf : offsetFree plan) (hp : positivePlan plan) (m : Rat) :
    (0 < m → 0 < applyPlanV m plan) ∧ (m < 0 → applyPlanV m plan < 0) ∧ (m = 0 → applyPlanV m plan = 0) :=
  applyPlanV_sign hf hp m

/-- In the model's `convert` the returned magnitude is `q.mag · κ` with `κ` depending only on
    the plan (hence only on the two units), whenever the plan has no offsets. -/
theorem convert_proportional {c c' : Conv Rat} {q r : Qty Rat} {t : UId}
    (h : CM.exec (convert q t) c = (.ok r, c')) :
    ∃ plan : List StepV, (offsetFree plan →
      r.mag.val = q.mag.val * applyPlanV ((Pfx.value (c.st.unit! q.unit).pfx : Mag Rat).val) plan) := by
  obtain ⟨_, plan, _, hv⟩ := convert_ok h
  refine ⟨plan.map PlanStep.toV, fun hf => ?_⟩
  rw [hv, mul_comm ((Pfx.value (c.st.unit! q.unit).pfx : Mag Rat).val) q.mag.val, applyPlanV_linear hf]

/-- Converting a quantity to its own unit returns the same magnitude. -/
theorem convert_self {c c' : Conv Rat} {q r : Qty Rat} (hq : q.unit < c.st.units.length)
    (h : CM.exec (convert q q.unit) c = (.ok r, c')) : r.mag.val = q.mag.val ∧ r.unit = q.unit :=
  Measured.convert_self hq h

/-- There and back: if the two plans carry the size ratios `σa/σb` and `σb/σa`, the round trip
    is the identity — for every magnitude. -/
theorem round_trip {p q : List StepV} {σa σb : Rat} (ha : σa ≠ 0) (hb : σb ≠ 0)
    (hp : affineOf p = (σa / σb, 0)) (hq : affineOf q = (σb / σa, 0)) (m : Rat) :
    applyPlanV (applyPlanV m p) q = m := by
  rw [applyPlanV_affine q, applyPlanV_affine p, hp, hq]
  field_simp
  ring

/-- Via any intermediate unit = directly, when each leg carries its size ratio. -/
theorem route_independent {p₁ p₂ d : List StepV} {σa σb σc : Rat} (hb : σb ≠ 0) (hc : σc ≠ 0)
    (h1 : affineOf p₁ = (σa / σb, 0)) (h2 : affineOf p₂ = (σb / σc, 0)) (hd : affineOf d = (σa / σc, 0))
    (m : Rat) : applyPlanV (applyPlanV m p₁) p₂ = applyPlanV m d := by
  rw [applyPlanV_affine p₂, applyPlanV_affine p₁, applyPlanV_affine d, h1, h2, hd]
  field_simp
  ring

/-! non-vacuity: a two-step offset-free plan -/
def demoPlan : List StepV := [ { ratio := 1, path := [⟨12, 0⟩, ⟨254/100, 0⟩], exp := 2 }, { ratio := 1/100, path := [], exp := 1 } ]
example : offsetFree demoPlan ∧ positivePlan demoPlan := by
  constructor
  · intro st hst h hh; simp [demoPlan] at hst; rcases hst with rfl | rfl <;> simp at hh <;> rcases hh with rfl | rfl <;> rfl
  · intro st hst; simp [demoPlan] at hst
    rcases hst with rfl | rfl
    · refine ⟨by norm_num, ?_⟩; intro h hh; simp at hh; rcases hh with rfl | rfl <;> norm_num
    · refine ⟨by norm_num, ?_⟩; intro h hh; simp at hh

/-! ### the direct fragment, proved for the planner itself

  No hypothesis about plan coefficients here: these are statements about the model of the real
  `convert` / `_plan_conversion` / `_find_path_recursive` / `_reduce_dimension`, for every state
  reachable (`Reach σ`) by unit operations, σ-consistent declarations and directly settled
  conversions, in any order.  "Directly settled" = the path search itself connects the two units
  (named units of one dimension, powers of them, chains of declarations of any length). -/

variable {σ : UId → Rat}

/-- A direct conversion is exact: `result · size(target) = magnitude · size(source)`. -/
theorem direct_conversion_exact (hσ : ∀ k, σ k ≠ 0) {c c' : Conv Rat} (hr : Reach σ c) {q r : Qty Rat} {t : UId}
    (hq : q.unit < c.st.units.length) (ht : t < c.st.units.length)
    (h : CM.exec (convert q t) c = (.ok r, c')) :
    r.unit = t ∧
    ∃ (direct : List (Hop Rat)) (c2 : Conv Rat),
      CM.exec (findPath q.unit t)
        { c with st := ((c.st.unprefixedUnit q.unit).1.unprefixedUnit t).1 } = (.ok direct, c2) ∧
      (direct ≠ [] → r.mag.val * unitSz σ c.st t = q.mag.val * unitSz σ c.st q.unit) :=
  reach_convert_exact hσ hr hq ht h

/-- There and back is the identity (both legs settled directly), whatever was interned in between. -/
theorem direct_round_trip (hσ : ∀ k, σ k ≠ 0) {c c' c'' ca cb : Conv Rat} (hr : Reach σ c) {q r r2 : Qty Rat} {t : UId}
    {p p2 : List (Hop Rat)}
    (hq : q.unit < c.st.units.length) (ht : t < c.st.units.length)
    (h1 : CM.exec (convert q t) c = (.ok r, c'))
    (hp1 : CM.exec (findPath q.unit t) { c with st := ((c.st.unprefixedUnit q.unit).1.unprefixedUnit t).1 } = (.ok p, ca))
    (hne1 : p ≠ [])
    (h2 : CM.exec (convert r q.unit) c' = (.ok r2, c''))
    (hp2 : CM.exec (findPath r.unit q.unit) { c' with st := ((c'.st.unprefixedUnit r.unit).1.unprefixedUnit q.unit).1 } = (.ok p2, cb))
    (hne2 : p2 ≠ []) :
    r2.mag.val = q.mag.val ∧ r2.unit = q.unit := by
  obtain ⟨hg, ho, _⟩ := reach_graphOK hσ hr
  obtain ⟨hu, d, c2, hfp, hd⟩ := convert_direct_exact hσ hg hq ht ho h1
  rw [hp1] at hfp
  simp only [Prod.mk.injEq, Except.ok.injEq] at hfp
  obtain ⟨rfl, rfl⟩ := hfp
  obtain ⟨e1, g', f'⟩ := hd hne1
  have hq' := f'.lt hq
  have ht' : r.unit < c'.st.units.length := by rw [hu]; exact f'.lt ht
  obtain ⟨hu2, d2, c3, hfp2, hd2⟩ := convert_direct_exact hσ g' ht' hq' (by rw [f'.offsets]; exact ho) h2
  rw [hp2] at hfp2
  simp only [Prod.mk.injEq, Except.ok.injEq] at hfp2
  obtain ⟨rfl, rfl⟩ := hfp2
  obtain ⟨e2, _, _⟩ := hd2 hne2
  refine ⟨?_, hu2⟩
  rw [hu, f'.sz hq, f'.sz ht] at e2
  have hs := unitSz_ne_zero hσ hg.canon hq
  have : r2.mag.val * unitSz σ c.st q.unit = q.mag.val * unitSz σ c.st q.unit := by rw [e2, e1]
  exact mul_right_cancel₀ hs this

/-- Converting via an intermediate unit agrees with converting directly (all three legs settled
    directly), whatever was interned in between. -/
theorem direct_route_independent (hσ : ∀ k, σ k ≠ 0) {c c₁ c₂ c₃ ca cb cc : Conv Rat} (hr : Reach σ c)
    {q r₁ r₂ r₃ : Qty Rat} {b t : UId} {p₁ p₂ p₃ : List (Hop Rat)}
    (hq : q.unit < c.st.units.length) (hb : b < c.st.units.length) (ht : t < c.st.units.length)
    (h1 : CM.exec (convert q b) c = (.ok r₁, c₁))
    (hp1 : CM.exec (findPath q.unit b) { c with st := ((c.st.unprefixedUnit q.unit).1.unprefixedUnit b).1 } = (.ok p₁, ca))
    (hne1 : p₁ ≠ [])
    (h2 : CM.exec (convert r₁ t) c₁ = (.ok r₂, c₂))
    (hp2 : CM.exec (findPath r₁.unit t) { c₁ with st := ((c₁.st.unprefixedUnit r₁.unit).1.unprefixedUnit t).1 } = (.ok p₂, cb))
    (hne2 : p₂ ≠ [])
    (h3 : CM.exec (convert q t) c₂ = (.ok r₃, c₃))
    (hp3 : CM.exec (findPath q.unit t) { c₂ with st := ((c₂.st.unprefixedUnit q.unit).1.unprefixedUnit t).1 } = (.ok p₃, cc))
    (hne3 : p₃ ≠ []) :
    r₃.mag.val = r₂.mag.val ∧ r₃.unit = r₂.unit := by
  obtain ⟨hg, ho, _⟩ := reach_graphOK hσ hr
  obtain ⟨hu1, d, x, hfp, hd⟩ := convert_direct_exact hσ hg hq hb ho h1
  rw [hp1] at hfp
  simp only [Prod.mk.injEq, Except.ok.injEq] at hfp
  obtain ⟨rfl, rfl⟩ := hfp
  obtain ⟨e1, g1, f1⟩ := hd hne1
  have ho1 : c₁.offsets = [] := by rw [f1.offsets]; exact ho
  have hb1 : r₁.unit < c₁.st.units.length := by rw [hu1]; exact f1.lt hb
  obtain ⟨hu2, d, x, hfp, hd⟩ := convert_direct_exact hσ g1 hb1 (f1.lt ht) ho1 h2
  rw [hp2] at hfp
  simp only [Prod.mk.injEq, Except.ok.injEq] at hfp
  obtain ⟨rfl, rfl⟩ := hfp
  obtain ⟨e2, g2, f2⟩ := hd hne2
  have f12 := f1.trans f2
  have ho2 : c₂.offsets = [] := by rw [f2.offsets]; exact ho1
  obtain ⟨hu3, d, x, hfp, hd⟩ := convert_direct_exact hσ g2 (f12.lt hq) (f12.lt ht) ho2 h3
  rw [hp3] at hfp
  simp only [Prod.mk.injEq, Except.ok.injEq] at hfp
  obtain ⟨rfl, rfl⟩ := hfp
  obtain ⟨e3, _, _⟩ := hd hne3
  refine ⟨?_, by rw [hu3, hu2]⟩
  rw [f12.sz hq, f12.sz ht] at e3
  rw [hu1, f1.sz hb, f1.sz ht] at e2
  have hs := unitSz_ne_zero hσ hg.canon ht
  have : r₃.mag.val * unitSz σ c.st t = r₂.mag.val * unitSz σ c.st t := by rw [e3, e2, e1]
  exact mul_right_cancel₀ hs this

/-! ### through the factor planner: one base unit on each side, any prefixes -/

/-- A fundamental dimension as the planner needs it: weight one, a factor of itself, no negative
    exponent (length, mass, time, …; decided by the kernel for the regenerated registry). -/
def Fundamental (d : Dim) : Prop :=
  d.weight ≤ 1 ∧ d.isFactor d = true ∧ (d.div d).isNumber = true ∧ d.any (fun x => decide (x < 0)) = false

/-- **Prefixed units convert exactly** (kilometre → mile, milligram → pound, millisecond → hour): source
    and target each consist of one base unit (to the first power) of one fundamental dimension, with any
    prefixes.  In every reachable state, whatever `convert` returns — through the directly found path
    or, with prefixes, through `_replace_factors` / `_match_factors` / `_cancel_factors` /
    `_inline_paths` — satisfies `result · size(target) = magnitude · size(source)`.  No hypothesis
    about the plan: this is the planner itself. -/
theorem single_factor_conversion_exact (hσ : ∀ k, σ k ≠ 0) {c c' : Conv Rat} (hr : Reach σ c)
    {q r : Qty Rat} {t u v : UId} {d : Dim}
    (hq : q.unit < c.st.units.length) (ht : t < c.st.units.length)
    (hu : u < c.st.units.length) (hv : v < c.st.units.length)
    (hsf : (c.st.unit! q.unit).factors = [(u, 1)]) (htf : (c.st.unit! t).factors = [(v, 1)])
    (hub : (c.st.unit! u).pfx = Pfx.identity ∧ (c.st.unit! u).factors = [(u, 1)])
    (hvb : (c.st.unit! v).pfx = Pfx.identity ∧ (c.st.unit! v).factors = [(v, 1)])
    (hdu : c.st.dimOfUnit u = d) (hdv : c.st.dimOfUnit v = d) (hd : Fundamental d)
    (h : CM.exec (convert q t) c = (.ok r, c')) :
    r.unit = t ∧ r.mag.val * unitSz σ c.st t = q.mag.val * unitSz σ c.st q.unit := by
  obtain ⟨hg, ho, hw⟩ := reach_graphOK hσ hr
  exact convert_single_exact hσ hg hw ho hq ht hu hv hsf htf hub hvb hdu hdv hd.1 hd.2.1 hd.2.2.1 hd.2.2.2 h

/-- **Simple compound units convert exactly** (km/h → m/s, kg·m² → lb·ft², cm³ → in³, mg/mL → lb/gal):
    products of powers of base units with any prefixes, whose dimensions are fundamental and pairwise
    independent (`KeysOK K`), with the same number of base units per dimension and sign on both sides
    (`matchSpec … = some ([], [], plan)`).  In every reachable state, whatever `convert` returns —
    directly or through the whole factor planner — is exact. -/
theorem simple_conversion_exact (hσ : ∀ k, σ k ≠ 0) {K : List Dim} (hK : KeysOK K) (hKw : ∀ d ∈ K, d.weight ≤ 1)
    {c c' : Conv Rat} (hr : Reach σ c) {q r : Qty Rat} {t : UId} {plan : List (Rough Rat)}
    (hq : q.unit < c.st.units.length) (ht : t < c.st.units.length)
    (hfs : ∀ f ∈ (c.st.unit! q.unit).factors,
      FactorOK K c.st f ∧ f.1 < c.st.units.length ∧ unitSz σ c.st f.1 = σ f.1)
    (hft : ∀ f ∈ (c.st.unit! t).factors,
      FactorOK K c.st f ∧ f.1 < c.st.units.length ∧ unitSz σ c.st f.1 = σ f.1)
    (hspec : matchSpec (splat c.st t).byComplexFirst (splat c.st q.unit) (splat c.st t) [] = some ([], [], plan))
    (h : CM.exec (convert q t) c = (.ok r, c')) :
    r.unit = t ∧ r.mag.val * unitSz σ c.st t = q.mag.val * unitSz σ c.st q.unit := by
  obtain ⟨hg, ho, hw⟩ := reach_graphOK hσ hr
  obtain ⟨h1, h2, _⟩ := convert_simple_exact hσ hK hKw hg hw ho hq ht hfs hft hspec h
  exact ⟨h1, h2⟩

end Measured.C05
