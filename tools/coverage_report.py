#!/venv/bin/python
"""coverage_report.py [Cxx ...] [--ops N]

Development aid (not a registered check): which lines of /repo/src/measured the generators of the
correspondence harness actually execute.  For every property module the runner is executed
in-process under a line tracer for one chunk; the union of executed lines is compared with the
executable lines of each source file (code objects' co_lines).  Prints one row per file and the
uncovered line ranges, and writes /verif/coverage.json.

The numbers measure the generators, not the proofs: a line that no generator reaches is a line whose
model counterpart is validated by nothing.
"""
import json
import os
import subprocess
import sys
import tempfile

HERE = os.path.dirname(os.path.abspath(__file__))
VERIF = os.path.dirname(HERE)
REPO_SRC = os.path.join(os.environ.get("MEASURED_REPO", "/repo"), "src", "measured")

TRACER = r'''
import json, os, sys, threading
SRC = %r
hits = {}
def tracer(frame, event, arg):
    fn = frame.f_code.co_filename
    if not fn.startswith(SRC):
        return None
    def local(frame, event, arg):
        if event == "line":
            hits.setdefault(fn, set()).add(frame.f_lineno)
        return local
    hits.setdefault(fn, set()).add(frame.f_lineno)
    return local
sys.settrace(tracer)
threading.settrace(tracer)
sys.argv = ["runner.py"] + %r
sys.path.insert(0, %r)
import runner
try:
    runner.main()
finally:
    sys.settrace(None)
    json.dump({k: sorted(v) for k, v in hits.items()}, open(%r, "w"))
'''


def executable_lines(path):
    src = open(path, encoding="utf-8").read()
    code = compile(src, path, "exec")
    lines = set()
    stack = [code]
    while stack:
        c = stack.pop()
        for _s, _e, ln in c.co_lines():
            if ln is not None:
                lines.add(ln)
        for k in c.co_consts:
            if hasattr(k, "co_lines"):
                stack.append(k)
    # module-level lines run at import, before the tracer is installed: count only lines inside functions
    import ast
    tree = ast.parse(src)
    inside = set()
    for node in ast.walk(tree):
        if isinstance(node, (ast.FunctionDef, ast.AsyncFunctionDef, ast.Lambda)):
            for n in ast.walk(node):
                if hasattr(n, "lineno"):
                    inside.add(n.lineno)
            if hasattr(node, "lineno"):
                inside.discard(node.lineno)      # the `def` line itself runs at import
    return lines & inside


def ranges(nums):
    out, start, prev = [], None, None
    for n in sorted(nums):
        if start is None:
            start = prev = n
        elif n == prev + 1:
            prev = n
        else:
            out.append((start, prev))
            start = prev = n
    if start is not None:
        out.append((start, prev))
    return ["%d" % a if a == b else "%d-%d" % (a, b) for a, b in out]


def main():
    args = [a for a in sys.argv[1:] if not a.startswith("--")]
    n_ops = 400
    if "--ops" in sys.argv:
        n_ops = int(sys.argv[sys.argv.index("--ops") + 1])
        args = [a for a in args if a != str(n_ops)]
    props = args or ["C%02d" % i for i in range(1, 20)]
    total = {}
    per_prop = {}
    for prop, seed in [(p, sd) for p in props for sd in ("0", "7")]:   # chunk seed 0 runs the exhaustive sweeps
        mod = os.path.join(VERIF, "harness", "props", prop.lower() + ".py")
        if not os.path.exists(mod) or "def generate" not in open(mod).read():
            continue
        with tempfile.TemporaryDirectory(prefix="cov", dir="/tmp") as td:
            out = os.path.join(td, "hits.json")
            script = TRACER % (REPO_SRC, [prop, seed, str(n_ops), td], os.path.join(VERIF, "harness"), out)
            p = subprocess.run(["/venv/bin/python", "-c", script], stdout=subprocess.PIPE, stderr=subprocess.STDOUT,
                               text=True, timeout=3000, env=dict(os.environ, MEASURED_REPO=os.environ.get("MEASURED_REPO", "/repo")))
            if not os.path.exists(out):
                print("%s: runner failed: %s" % (prop, p.stdout[-400:]))
                continue
            hits = json.load(open(out))
        per_prop[prop + "/seed" + seed] = {os.path.basename(k): len(v) for k, v in hits.items()}
        for k, v in hits.items():
            total.setdefault(k, set()).update(v)
        print("%s traced (%d files touched)" % (prop, len(hits)), flush=True)
    report = {}
    for fn in sorted(os.listdir(REPO_SRC)):
        if not fn.endswith(".py"):
            continue
        path = os.path.join(REPO_SRC, fn)
        ex = executable_lines(path)
        if not ex:
            continue
        hit = total.get(path, set()) & ex
        report[fn] = {"executable_in_functions": len(ex), "executed": len(hit),
                      "percent": round(100.0 * len(hit) / len(ex), 1), "not_executed": ranges(ex - hit)}
        print("%-22s %4d / %4d  %5.1f%%   not executed: %s" % (fn, len(hit), len(ex), report[fn]["percent"],
                                                              " ".join(report[fn]["not_executed"][:40])))
    json.dump({"properties": props, "ops_per_property": n_ops, "files": report, "lines_per_property": per_prop},
              open(os.path.join(VERIF, "coverage.json"), "w"), indent=1)


if __name__ == "__main__":
    main()
