/-
  C02 — Dimensions, prefixes and units are canonical objects forming abelian groups.

  `Canon s`: no two records of the intern table share a key, every factor mapping is in
  normal form, prefixes are normalised.  `SameDen base e₁ e₂`: the two expressions denote
  the same element of (prefix group) × (free abelian group over the base units).
-/
import Proofs.GroupLaws
import Proofs.Check
import Props.C01

namespace Measured.C02
open Measured St UExpr

/-- **Equal denotation ⇒ the very same object**, in any reachable state and with arbitrary
    histories before and between the two evaluations. -/
theorem eval_canonical {base : St} (h : GInv base) (hc : Canon base) {e₁ e₂ : UExpr}
    (h₁ : ExprOK base e₁) (h₂ : ExprOK base e₂) (hd : SameDen base e₁ e₂)
    (ops₁ ops₂ : List Op) (i j : UId)
    (r₁ : (e₁.eval (run base ops₁)).2 = .ok i)
    (r₂ : (e₂.eval (run (e₁.eval (run base ops₁)).1 ops₂)).2 = .ok j) : i = j := by
  -- first evaluation
  have g1 := run_ginv h ops₁
  have c1 := run_canon h hc ops₁
  have x1 := run_ext base ops₁
  obtain ⟨g1', x1', s1⟩ := eval_spec base e₁ h₁.refs g1 x1
  obtain ⟨c1', k1⟩ := eval_key_spec base e₁ h₁.refs h₁.pfxs g1 c1 x1
  obtain ⟨hi, _⟩ := s1 i r₁
  obtain ⟨p1, q1⟩ := k1 i r₁
  -- history in between, second evaluation
  have g2 := run_ginv g1' ops₂
  have c2 := run_canon g1' c1' ops₂
  have x2 := run_ext (e₁.eval (run base ops₁)).1 ops₂
  have xb2 : Ext base (run (e₁.eval (run base ops₁)).1 ops₂) := (x1.trans x1').trans x2
  obtain ⟨_, x2', s2⟩ := eval_spec base e₂ h₂.refs g2 xb2
  obtain ⟨c2', k2⟩ := eval_key_spec base e₂ h₂.refs h₂.pfxs g2 c2 xb2
  obtain ⟨hj, _⟩ := s2 j r₂
  obtain ⟨p2, q2⟩ := k2 j r₂
  -- the first result is still the same record
  have xi := (x2.trans x2').unit_same hi
  have hi' := Nat.lt_of_lt_of_le hi (x2.trans x2').len
  have hone := (xb2.trans x2').one
  apply canonical_identity c2' hi' hj
  · rw [xi.1]; exact hd.1 _ _ p1 p2
  · intro k hk
    rw [xi.2, q1 k (by rw [← hone]; exact hk), q2 k (by rw [← hone]; exact hk)]
    exact hd.2 k (by rw [← hone]; exact hk)

/-- Re-evaluating an expression, after any history, returns the same object. -/
theorem eval_idempotent {base : St} (h : GInv base) (hc : Canon base) {e : UExpr} (he : ExprOK base e)
    (ops₁ ops₂ : List Op) (i j : UId)
    (r₁ : (e.eval (run base ops₁)).2 = .ok i)
    (r₂ : (e.eval (run (e.eval (run base ops₁)).1 ops₂)).2 = .ok j) : i = j :=
  eval_canonical h hc he he ⟨fun _ _ a b => by rw [a] at b; injection b, fun _ _ => rfl⟩ ops₁ ops₂ i j r₁ r₂

/-! ### the group laws, up to object identity

Each law is `SameDen` for the two sides; `eval_canonical` turns it into identity of the
resulting objects.  `x y z` are arbitrary expressions over existing units. -/

section laws
variable {base : St} {x y z : UExpr}

theorem mul_comm (hc : Canon base) (hx : ExprOK base x) (hy : ExprOK base y) :
    SameDen base (.mul x y) (.mul y x) := den_mul_comm hc hx hy
theorem mul_assoc (hc : Canon base) (hx : ExprOK base x) (hy : ExprOK base y) (hz : ExprOK base z) :
    SameDen base (.mul (.mul x y) z) (.mul x (.mul y z)) := den_mul_assoc hc hx hy hz
theorem one_mul (hc : Canon base) (hx : ExprOK base x) :
    SameDen base (.mul (.ref base.one) x) x := den_one_mul hc hx
theorem mul_inv (hc : Canon base) (hx : ExprOK base x) :
    SameDen base (.mul x (.pow x (-1))) (.ref base.one) := den_mul_inv hc hx
theorem div_eq_mul_inv (hc : Canon base) (hx : ExprOK base x) (hy : ExprOK base y) :
    SameDen base (.div x y) (.mul x (.pow y (-1))) := den_div_eq_mul_inv hc hx hy
theorem pow_add (hc : Canon base) (hx : ExprOK base x) (m n : Int) :
    SameDen base (.mul (.pow x m) (.pow x n)) (.pow x (m + n)) := den_pow_add hc hx m n
theorem pow_mul (hc : Canon base) (hx : ExprOK base x) (m n : Int) :
    SameDen base (.pow (.pow x m) n) (.pow x (m * n)) := den_pow_mul hc hx m n
theorem root_pow (hc : Canon base) (hx : ExprOK base x) {n : Int} (hn : n ≠ 0) :
    SameDen base (.root (.pow x n) n) x := den_root_pow hc hx hn

end laws

/-- Example of use: `a * b` and `b * a` are one object, whatever happens in between. -/
theorem mul_comm_identity {base : St} (h : GInv base) (hc : Canon base) {x y : UExpr}
    (hx : ExprOK base x) (hy : ExprOK base y) (ops₁ ops₂ : List Op) (i j : UId)
    (r₁ : ((UExpr.mul x y).eval (run base ops₁)).2 = .ok i)
    (r₂ : ((UExpr.mul y x).eval (run ((UExpr.mul x y).eval (run base ops₁)).1 ops₂)).2 = .ok j) : i = j :=
  eval_canonical h hc
    ⟨fun r hr => by simp only [refs, List.mem_append] at hr; rcases hr with hr | hr; exact hx.refs r hr; exact hy.refs r hr,
     fun p hp => by simp only [pfxs, List.mem_append] at hp; rcases hp with hp | hp; exact hx.pfxs p hp; exact hy.pfxs p hp⟩
    ⟨fun r hr => by simp only [refs, List.mem_append] at hr; rcases hr with hr | hr; exact hy.refs r hr; exact hx.refs r hr,
     fun p hp => by simp only [pfxs, List.mem_append] at hp; rcases hp with hp | hp; exact hy.pfxs p hp; exact hx.pfxs p hp⟩
    (mul_comm hc hx hy) ops₁ ops₂ i j r₁ r₂

/-! ### dimensions and same-base prefixes are abelian groups (values are the objects) -/

theorem dim_mul_comm (a b : Dim) : a.mul b = b.mul a := Dim.mul_comm a b
theorem dim_mul_assoc (a b c : Dim) : (a.mul b).mul c = a.mul (b.mul c) := Dim.mul_assoc a b c
theorem dim_number_mul (a : Dim) : (Dim.number a.length).mul a = a := Dim.number_mul a
theorem dim_mul_inv (a : Dim) : a.mul (a.pow (-1)) = Dim.number a.length := Dim.mul_pow_neg_self a
theorem dim_div_eq (a b : Dim) : a.div b = a.mul (b.pow (-1)) := Dim.div_eq_mul_pow a b
theorem dim_pow_add (a : Dim) (m n : Int) : (a.pow m).mul (a.pow n) = a.pow (m + n) := Dim.pow_add a m n
theorem dim_pow_mul (a : Dim) (m n : Int) : (a.pow m).pow n = a.pow (m * n) := Dim.pow_mul a m n
theorem dim_root_pow (a : Dim) {n : Int} (hn : n ≠ 0) : (a.pow n).root n = .ok a := by
  have h1 : (a.pow n).root n = .ok ((a.pow n).map (fun s => Int.fdiv s n)) := by
    unfold Dim.root
    have hn0 : (n == 0) = false := by simpa using hn
    simp only [hn0, Bool.false_eq_true, ↓reduceIte]
    have : ((a.pow n).any fun s => s % n != 0) = false := by
      simp [Dim.pow, List.any_eq_false]
    simp [this]
  rw [h1]; congr 1
  unfold Dim.pow; rw [List.map_map]
  conv => rhs; rw [← List.map_id a]
  apply List.map_congr_left
  intro s _
  simp only [Function.comp_apply, id_eq]
  rw [Int.fdiv_eq_ediv_of_dvd (Int.dvd_mul_left _ _), Int.mul_ediv_cancel _ hn]

theorem pfx_mul_comm {a b : Pfx} (ha : a.Normal) (hb : b.Normal) : Pfx.mul a b = Pfx.mul b a := Pfx.mul_comm ha hb
theorem pfx_mul_assoc {a b c ab bc : Pfx} (ha : a.Normal) (hb : b.Normal) (hc : c.Normal)
    (h1 : Pfx.mul a b = .ok ab) (h2 : Pfx.mul b c = .ok bc) : Pfx.mul ab c = Pfx.mul a bc :=
  Pfx.mul_assoc ha hb hc h1 h2
theorem pfx_identity_mul {a : Pfx} (ha : a.Normal) : Pfx.mul Pfx.identity a = .ok a := Pfx.identity_mul ha
theorem pfx_mul_inv {a : Pfx} (ha : a.Normal) : Pfx.mul a (a.pow (-1)) = .ok Pfx.identity := Pfx.mul_pow_neg_self ha
theorem pfx_div_eq {a b : Pfx} (hb : b.Normal) : Pfx.div a b = Pfx.mul a (b.pow (-1)) := Pfx.div_eq_mul_pow hb
theorem pfx_pow_add {a : Pfx} (ha : a.Normal) (m n : Int) : Pfx.mul (a.pow m) (a.pow n) = .ok (a.pow (m + n)) := Pfx.pow_add ha m n
theorem pfx_pow_mul {a : Pfx} (ha : a.Normal) (m n : Int) : (a.pow m).pow n = a.pow (m * n) := Pfx.pow_mul ha m n
theorem pfx_root_pow {a : Pfx} (ha : a.Normal) {n : Int} (hn : n ≠ 0) : (a.pow n).root n = .ok a := Pfx.root_pow ha hn

/-! ### non-vacuity -/

def tiny : St := C01.tiny

example : GInv tiny ∧ Canon tiny := ⟨checkGInv_sound (by decide), checkCanon_sound (by decide +kernel)⟩

/-- `(g/m)*g` and `g*(g/m)` evaluate to one object (index 4), with an unrelated operation
    in between. -/
example :
    let e₁ := UExpr.mul (.div (.ref 2) (.ref 1)) (.ref 2)
    let e₂ := UExpr.mul (.ref 2) (.div (.ref 2) (.ref 1))
    let s₁ := (e₁.eval tiny)
    (s₁.2 = .ok 4) ∧ ((e₂.eval (run s₁.1 [.pow 1 3])).2 = .ok 4) := by decide +kernel

end Measured.C02
