/-
  Model/Graph.lean — the conversion graph of /repo/src/measured/conversions.py:
  `_ratios`, `_offsets`, `equate`, `translate`, and the raw (transport) form of magnitudes.
-/
import Model.Units
import Model.Num

namespace Measured

/-- A magnitude as it travels between Python and Lean: nothing is rounded in transit. -/
inductive Raw where
  | int (i : Int)
  | flt (bits : Nat)                 -- IEEE-754 binary64 bit pattern
  | dec (num : Int) (den : Nat)      -- a Decimal, as an exact fraction
  deriving DecidableEq, Repr, Inhabited

def Raw.toMag {α} [FloatLike α] : Raw → Mag α
  | .int i => .int i
  | .flt b => .flt (FloatLike.ofBits b)
  | .dec n d => .dec ((n : Rat) / (d : Rat))

/-- The exact rational value of a raw magnitude. -/
def Raw.toRat : Raw → Rat
  | .int i => (i : Rat)
  | .flt b => ratOfBits b
  | .dec n d => (n : Rat) / (d : Rat)

/-- A declaration as written in a unit module. -/
inductive Decl where
  /-- `equate(ma * ua, mb * ub)` — what `ua.equals(mb * ub)` does with `ma = 1` -/
  | equate (ma : Raw) (ua : UId) (mb : Raw) (ub : UId)
  /-- `translate(scale, zero)` — `Dimension.scale(zero, …)` -/
  | translate (scale : UId) (zeroMag : Raw) (zeroUnit : UId)
  deriving DecidableEq, Repr, Inhabited

/-- `Dict[Unit, Dict[Unit, Numeric]]`, both levels insertion ordered. -/
abbrev Table (β : Type) := List (UId × List (UId × β))

namespace Table
variable {β : Type}

def row (t : Table β) (a : UId) : List (UId × β) :=
  match t.find? (fun r => r.1 == a) with
  | some r => r.2
  | none => []

def get? (t : Table β) (a b : UId) : Option β :=
  match (t.row a).find? (fun c => c.1 == b) with
  | some c => some c.2
  | none => none

/-- `t[a][b] = v` on a `defaultdict(dict)`: existing keys keep their position. -/
def set (t : Table β) (a b : UId) (v : β) : Table β :=
  let setRow (r : List (UId × β)) : List (UId × β) :=
    if r.any (fun c => c.1 == b) then r.map (fun c => if c.1 == b then (b, v) else c) else r ++ [(b, v)]
  if t.any (fun r => r.1 == a) then t.map (fun r => if r.1 == a then (a, setRow r.2) else r)
  else t ++ [(a, setRow [])]

end Table

end Measured
