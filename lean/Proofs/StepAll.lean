/-
  Proofs/StepAll.lean — `step` preserves the global invariant and only extends the table.
-/
import Proofs.StepInv

namespace Measured
open St

/-- The invariant carried along every history. -/
def GInv (s : St) : Prop := Inv s ∧ Reg s

variable {s : St}

theorem mulUnit_reg (hr : Reg s) (a b : Nat) : Reg (s.mulUnit a b).1 := by
  unfold mulUnit; simp only; split
  · exact hr
  · exact newUnit_reg hr _ _ _
theorem divUnit_reg (hr : Reg s) (a b : Nat) : Reg (s.divUnit a b).1 := by
  unfold divUnit; simp only; split
  · exact hr
  · exact newUnit_reg hr _ _ _
theorem powUnit_reg (hr : Reg s) (a : Nat) (n : Int) : Reg (s.powUnit a n).1 := by
  unfold powUnit; exact newUnit_reg hr _ _ _
theorem rootUnit_reg (hr : Reg s) (a : Nat) (n : Int) : Reg (s.rootUnit a n).1 := by
  unfold rootUnit
  split
  · exact hr
  · simp only
    split
    · exact hr
    · split
      · exact hr
      · split
        · exact hr
        · exact newUnit_reg hr _ _ _
theorem asRatio_reg (hr : Reg s) (a : Nat) : Reg (s.asRatio a).1 := by
  unfold asRatio; simp only
  exact newUnit_reg (newUnit_reg hr _ _ _) _ _ _
theorem unprefixedUnit_reg (hr : Reg s) (a : Nat) : Reg (s.unprefixedUnit a).1 := by
  unfold unprefixedUnit; exact newUnit_reg hr _ _ _
theorem pmulUnit_reg (hr : Reg s) (p : Pfx) (a : Nat) : Reg (s.pmulUnit p a).1 := by
  unfold pmulUnit; simp only; split
  · exact hr
  · exact newUnit_reg hr _ _ _
theorem resolveSymbol_reg (hr : Reg s) (t : String) : Reg (s.resolveSymbol t).1 := by
  unfold resolveSymbol
  split
  · exact hr
  · simp only
    split
    · exact pmulUnit_reg hr _ _
    · split <;> exact hr
theorem appendBase_reg (hr : Reg s) (d : Dim) : Reg (s.appendBase d) :=
  hr.mono rfl rfl rfl (appendBase_ext s d).len
theorem defineUnit_reg (hr : Reg s) (d : Dim) (name sym : String) : Reg (s.defineUnit d name sym).1 := by
  unfold defineUnit
  split
  · exact hr
  · split
    · exact hr
    · split
      · exact hr
      · exact aliasUnit_reg (appendBase_reg hr d) (by simp [appendBase]) _ _
theorem deriveUnit_reg (hr : Reg s) {a : Nat} (ha : a < s.units.length) (name sym : String) :
    Reg (s.deriveUnit a name sym).1 := by
  unfold deriveUnit
  have := aliasUnit_reg hr ha (some name) (some sym)
  split <;> simp_all

/-! ### extension -/

theorem mulUnit_ext (s : St) (a b : Nat) : Ext s (s.mulUnit a b).1 := by
  unfold mulUnit; simp only; split
  · exact Ext.refl s
  · exact newUnit_ext s _ _ _
theorem divUnit_ext (s : St) (a b : Nat) : Ext s (s.divUnit a b).1 := by
  unfold divUnit; simp only; split
  · exact Ext.refl s
  · exact newUnit_ext s _ _ _
theorem powUnit_ext (s : St) (a : Nat) (n : Int) : Ext s (s.powUnit a n).1 := by
  unfold powUnit; exact newUnit_ext s _ _ _
theorem rootUnit_ext (s : St) (a : Nat) (n : Int) : Ext s (s.rootUnit a n).1 := by
  unfold rootUnit
  split
  · exact Ext.refl s
  · simp only
    split
    · exact Ext.refl s
    · split
      · exact Ext.refl s
      · split
        · exact Ext.refl s
        · exact newUnit_ext s _ _ _
theorem asRatio_ext (s : St) (a : Nat) : Ext s (s.asRatio a).1 := by
  unfold asRatio; simp only
  exact (newUnit_ext s _ _ _).trans (newUnit_ext _ _ _ _)
theorem unprefixedUnit_ext (s : St) (a : Nat) : Ext s (s.unprefixedUnit a).1 := by
  unfold unprefixedUnit; exact newUnit_ext s _ _ _
theorem pmulUnit_ext (s : St) (p : Pfx) (a : Nat) : Ext s (s.pmulUnit p a).1 := by
  unfold pmulUnit; simp only; split
  · exact Ext.refl s
  · exact newUnit_ext s _ _ _
theorem resolveSymbol_ext (s : St) (t : String) : Ext s (s.resolveSymbol t).1 := by
  unfold resolveSymbol
  split
  · exact Ext.refl s
  · simp only
    split
    · exact pmulUnit_ext s _ _
    · split <;> exact Ext.refl s
theorem deriveUnit_ext (s : St) (a : Nat) (name sym : String) : Ext s (s.deriveUnit a name sym).1 := by
  unfold deriveUnit
  have := aliasUnit_ext s a (some name) (some sym)
  split <;> simp_all

/-! ### all operations -/

theorem step_ginv (h : GInv s) (o : Op) (hok : o.ok s = true) : GInv (step s o).1 := by
  obtain ⟨hi, hr⟩ := h
  unfold Op.ok at hok
  simp only [Bool.and_eq_true, List.all_eq_true, decide_eq_true_eq] at hok
  obtain ⟨href, hdef⟩ := hok
  cases o with
  | mul a b =>
    have ha := href a (by simp [Op.refs]); have hb := href b (by simp [Op.refs])
    exact ⟨mulUnit_inv hi ha hb, mulUnit_reg hr a b⟩
  | div a b =>
    have ha := href a (by simp [Op.refs]); have hb := href b (by simp [Op.refs])
    exact ⟨divUnit_inv hi ha hb, divUnit_reg hr a b⟩
  | pow a n => exact ⟨powUnit_inv hi (href a (by simp [Op.refs])) n, powUnit_reg hr a n⟩
  | root a n => exact ⟨rootUnit_inv hi (href a (by simp [Op.refs])) n, rootUnit_reg hr a n⟩
  | ratio a => exact ⟨asRatio_inv hi (href a (by simp [Op.refs])), asRatio_reg hr a⟩
  | unprefixed a => exact ⟨unprefixedUnit_inv hi (href a (by simp [Op.refs])), unprefixedUnit_reg hr a⟩
  | pmul p a => exact ⟨pmulUnit_inv hi p (href a (by simp [Op.refs])), pmulUnit_reg hr p a⟩
  | define d name sym =>
    have hd : d.length = s.ndim := by simpa using hdef
    exact ⟨defineUnit_inv hi hd name sym, defineUnit_reg hr d name sym⟩
  | derive a name sym =>
    exact ⟨deriveUnit_inv hi a name sym, deriveUnit_reg hr (href a (by simp [Op.refs])) name sym⟩
  | alias a name sym =>
    have ha := href a (by simp [Op.refs])
    have h1 := aliasUnit_inv hi a name sym
    have h2 := aliasUnit_reg hr ha name sym
    simp only [step]
    split <;> (simp_all; exact ⟨h1, h2⟩)
  | resolve t => exact ⟨resolveSymbol_inv hi hr t, resolveSymbol_reg hr t⟩
  | named n =>
    simp only [step]
    split <;> exact ⟨hi, hr⟩

theorem step_ext (s : St) (o : Op) : Ext s (step s o).1 := by
  cases o with
  | mul a b => exact mulUnit_ext s a b
  | div a b => exact divUnit_ext s a b
  | pow a n => exact powUnit_ext s a n
  | root a n => exact rootUnit_ext s a n
  | ratio a => exact asRatio_ext s a
  | unprefixed a => exact unprefixedUnit_ext s a
  | pmul p a => exact pmulUnit_ext s p a
  | define d name sym => exact defineUnit_ext s d name sym
  | derive a name sym => exact deriveUnit_ext s a name sym
  | alias a name sym =>
    have := aliasUnit_ext s a name sym
    simp only [step]
    split <;> simp_all
  | resolve t => exact resolveSymbol_ext s t
  | named n =>
    simp only [step]
    split <;> exact Ext.refl s

theorem stepC_ginv (h : GInv s) (o : Op) : GInv (stepC s o).1 := by
  unfold stepC
  split
  · next hok => exact step_ginv h o hok
  · exact h

theorem stepC_ext (s : St) (o : Op) : Ext s (stepC s o).1 := by
  unfold stepC
  split
  · exact step_ext s o
  · exact Ext.refl s

theorem run_ginv (h : GInv s) (ops : List Op) : GInv (run s ops) := by
  unfold run
  induction ops generalizing s with
  | nil => exact h
  | cons o rest ih => exact ih (stepC_ginv h o)

theorem run_ext (s : St) (ops : List Op) : Ext s (run s ops) := by
  unfold run
  induction ops generalizing s with
  | nil => exact Ext.refl s
  | cons o rest ih => exact (stepC_ext s o).trans (ih _)

end Measured
