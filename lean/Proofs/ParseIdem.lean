/-
  Proofs/ParseIdem.lean — every `QuantityTransformer` callback is *stable*: executed again in any
  canonical state that extends the state it produced (same registries, more interned units), it
  changes nothing and returns the same value.  With `Proofs/ParseStable.lean` this gives C17's
  "parsing the same text twice gives the same result".
-/
import Proofs.ParseStable
import Proofs.ParseFrame
import Proofs.CanonAll
import Proofs.KeySpec

namespace Measured
open St

/-! ### frames keep old records -/

theorem Frame.len {s s' : St} (f : Frame s s') : s.units.length ≤ s'.units.length := by
  obtain ⟨ext, he⟩ := f.units; rw [he]; simp

theorem Frame.getElem {s s' : St} (f : Frame s s') {i : Nat} (hi : i < s.units.length) :
    s'.units[i]'(Nat.lt_of_lt_of_le hi f.len) = s.units[i] := by
  obtain ⟨ext, he⟩ := f.units
  simp only [he]
  exact List.getElem_append_left hi

theorem Frame.unit_eq {s s' : St} (f : Frame s s') {i : Nat} (hi : i < s.units.length) : s'.unit! i = s.unit! i := by
  unfold St.unit!
  rw [getD_eq_getElem' _ _ (Nat.lt_of_lt_of_le hi f.len), getD_eq_getElem' _ _ hi]
  exact f.getElem hi

/-! ### interning again finds the same record -/

theorem newUnit_index_key (s : St) (p : Pfx) (fs : Factors) (d : Dim) :
    ∃ hi : (s.newUnit p fs d).2 < (s.newUnit p fs d).1.units.length,
      (s.newUnit p fs d).1.units[(s.newUnit p fs d).2].pfx = p ∧
      sortKey (s.newUnit p fs d).1.units[(s.newUnit p fs d).2].factors = sortKey fs := by
  cases hf : findUnit s.units p fs with
  | some i =>
    have h1 : s.newUnit p fs d = (s, i) := by simp [newUnit, hf]
    obtain ⟨hi, hp, hk⟩ := findUnit_key hf
    rw [h1]; exact ⟨hi, hp, hk⟩
  | none =>
    have h1 : s.newUnit p fs d =
        ({ s with units := s.units ++ [({ pfx := p, factors := fs, dim := d } : UnitRec)] }, s.units.length) := by
      simp [newUnit, hf]
    rw [h1]
    refine ⟨by simp, ?_, ?_⟩ <;> simp

theorem newUnit_stable {s s2 : St} {p : Pfx} {fs : Factors} {d : Dim} (hc2 : Canon s2)
    (hf : Frame (s.newUnit p fs d).1 s2) : s2.newUnit p fs d = (s2, (s.newUnit p fs d).2) := by
  obtain ⟨hi, hp, hk⟩ := newUnit_index_key s p fs d
  have hi2 := Nat.lt_of_lt_of_le hi hf.len
  have hrec := hf.getElem hi
  have hfind : findUnit s2.units p fs = some (s.newUnit p fs d).2 :=
    findUnit_of_key hc2 hi2 (by rw [hrec]; exact hp) (by rw [hrec]; exact hk)
  have h2 : s2.newUnit p fs d = (s2, (s.newUnit p fs d).2) := by
    simp only [newUnit, hfind]
  exact h2

/-! ### the unit operations the transformer uses -/

theorem mulUnit_stable {s s2 : St} {a b : UId} (ha : a < s.units.length) (hb : b < s.units.length)
    (hc2 : Canon s2) (hf : Frame (s.mulUnit a b).1 s2) : s2.mulUnit a b = (s2, (s.mulUnit a b).2) := by
  have hfs : Frame s s2 := (mulUnit_frame s a b).1.trans hf
  unfold mulUnit at hf ⊢
  simp only at hf ⊢
  rw [hfs.unit_eq ha, hfs.unit_eq hb, hfs.one]
  cases hm : Pfx.mul (s.unit! a).pfx (s.unit! b).pfx with
  | error e => rfl
  | ok p =>
    rw [hm] at hf
    simp only at hf ⊢
    rw [newUnit_stable hc2 hf]

theorem divUnit_stable {s s2 : St} {a b : UId} (ha : a < s.units.length) (hb : b < s.units.length)
    (hc2 : Canon s2) (hf : Frame (s.divUnit a b).1 s2) : s2.divUnit a b = (s2, (s.divUnit a b).2) := by
  have hfs : Frame s s2 := (divUnit_frame s a b).1.trans hf
  unfold divUnit at hf ⊢
  simp only at hf ⊢
  rw [hfs.unit_eq ha, hfs.unit_eq hb, hfs.one]
  cases hm : Pfx.div (s.unit! a).pfx (s.unit! b).pfx with
  | error e => rfl
  | ok p =>
    rw [hm] at hf
    simp only at hf ⊢
    rw [newUnit_stable hc2 hf]

theorem powUnit_stable {s s2 : St} {a : UId} (ha : a < s.units.length) (n : Int)
    (hc2 : Canon s2) (hf : Frame (s.powUnit a n).1 s2) : s2.powUnit a n = (s2, (s.powUnit a n).2) := by
  have hfs : Frame s s2 := (powUnit_frame s a n).trans hf
  unfold powUnit at hf ⊢
  rw [hfs.unit_eq ha, hfs.one]
  exact newUnit_stable hc2 hf

theorem pmulUnit_stable {s s2 : St} {a : UId} (ha : a < s.units.length) (p : Pfx)
    (hc2 : Canon s2) (hf : Frame (s.pmulUnit p a).1 s2) : s2.pmulUnit p a = (s2, (s.pmulUnit p a).2) := by
  have hfs : Frame s s2 := (pmulUnit_frame s p a).1.trans hf
  unfold pmulUnit at hf ⊢
  simp only at hf ⊢
  rw [hfs.unit_eq ha]
  cases hm : Pfx.mul (s.unit! a).pfx p with
  | error e => rfl
  | ok p' =>
    rw [hm] at hf
    simp only at hf ⊢
    rw [newUnit_stable hc2 hf]

theorem go_congr {s s2 : St} (h1 : s2.pfxBySym = s.pfxBySym) (h2 : s2.unitBySym = s.unitBySym) (cs : List Char) :
    ∀ fuel i, resolveSymbol.go s2 cs i fuel = resolveSymbol.go s cs i fuel := by
  intro fuel
  induction fuel with
  | zero => intro i; rfl
  | succ fuel ih =>
    intro i
    unfold resolveSymbol.go
    rw [h1, h2]
    split
    · rfl
    · split
      · rfl
      · exact ih _

theorem resolveSymbol_stable {s s2 : St} (hr : Reg s) (t : String)
    (hc2 : Canon s2) (hf : Frame (s.resolveSymbol t).1 s2) : s2.resolveSymbol t = (s2, (s.resolveSymbol t).2) := by
  have hfs : Frame s s2 := (resolveSymbol_frame s t).1.trans hf
  unfold resolveSymbol at hf ⊢
  rw [hfs.unitBySym, hfs.unitByName]
  cases h1 : lookup t s.unitBySym with
  | some i => rfl
  | none =>
    simp only [h1] at hf ⊢
    rw [go_congr hfs.pfxBySym hfs.unitBySym]
    cases hgo : resolveSymbol.go s t.toList 1 t.toList.length with
    | some pu =>
      obtain ⟨p, u⟩ := pu
      rw [hgo] at hf
      simp only at hf ⊢
      obtain ⟨⟨k, hk⟩, _⟩ := go_some hgo
      exact pmulUnit_stable (hr.1 _ (lookup_mem hk)) p hc2 hf
    | none =>
      simp only
      cases lookup t s.unitByName <;> rfl

end Measured

namespace Measured
open St

/-! ### results are existing units -/

theorem resolveSymbol_lt {s : St} (hr : Reg s) {t : String} {i : UId} (h : (s.resolveSymbol t).2 = .ok i) :
    i < (s.resolveSymbol t).1.units.length := by
  unfold resolveSymbol at h ⊢
  cases h1 : lookup t s.unitBySym with
  | some j =>
    simp only [h1] at h ⊢
    injection h with h; subst h
    exact hr.1 _ (lookup_mem h1)
  | none =>
    simp only [h1] at h ⊢
    cases hgo : resolveSymbol.go s t.toList 1 t.toList.length with
    | some pu =>
      obtain ⟨p, u⟩ := pu
      simp only [hgo] at h ⊢
      exact pmulUnit_lt _ _ _ h
    | none =>
      simp only [hgo] at h ⊢
      cases h2 : lookup t s.unitByName with
      | some j =>
        simp only [h2] at h ⊢
        injection h with h; subst h
        exact hr.2.1 _ (lookup_mem h2)
      | none => simp only [h2] at h; cases h

/-! ### the invariant carried through a parse -/

def Good (s : St) : Prop := GInv s ∧ Canon s

theorem good_step {s : St} (h : Good s) (o : Op) (hok : o.ok s = true) : Good (step s o).1 :=
  ⟨step_ginv h.1 o hok, step_canon h.1 h.2 o hok⟩

theorem ok_refs {s : St} (o : Op) (hr : ∀ r ∈ o.refs, r < s.units.length)
    (hx : match o with | .define .. => False | .pmul p _ => (p.base = 0 ↔ p.exp = 0) | _ => True) : o.ok s = true := by
  unfold Op.ok
  simp only [Bool.and_eq_true, List.all_eq_true, decide_eq_true_eq]
  refine ⟨hr, ?_⟩
  cases o <;> simp_all

theorem good_mulUnit {s : St} (h : Good s) {a b : UId} (ha : a < s.units.length) (hb : b < s.units.length) :
    Good (s.mulUnit a b).1 :=
  good_step h (.mul a b) (ok_refs _ (by intro r hr; simp [Op.refs] at hr; rcases hr with rfl | rfl <;> assumption) trivial)

theorem good_divUnit {s : St} (h : Good s) {a b : UId} (ha : a < s.units.length) (hb : b < s.units.length) :
    Good (s.divUnit a b).1 :=
  good_step h (.div a b) (ok_refs _ (by intro r hr; simp [Op.refs] at hr; rcases hr with rfl | rfl <;> assumption) trivial)

theorem good_powUnit {s : St} (h : Good s) {a : UId} (ha : a < s.units.length) (n : Int) : Good (s.powUnit a n).1 :=
  good_step h (.pow a n) (ok_refs _ (by intro r hr; simp [Op.refs] at hr; subst hr; exact ha) trivial)

theorem good_resolveSymbol {s : St} (h : Good s) (t : String) : Good (s.resolveSymbol t).1 :=
  good_step h (.resolve t) (ok_refs _ (by intro r hr; simp [Op.refs] at hr) trivial)

section
variable {α : Type} [FloatLike α]

/-- **The magnitude is the literal that was written**: `int(text)` of an integer literal, or
    `float(text)` of a decimal literal — what `QuantityTransformer.int` / `.float` return; in
    particular an `int` is never silently a `float` or a `Decimal`, and the other way round. -/
def Written (m : Mag α) : Prop :=
  (∃ (text : String) (i : Int), pyInt text = .ok i ∧ m = .int i) ∨
  (∃ (text : String) (q : Rat), decimalLiteral text = some q ∧ m = .flt (FloatLike.ofRat q))

theorem Written.notDec {m : Mag α} (h : Written m) : m.isDec = false := by
  rcases h with ⟨_, _, _, rfl⟩ | ⟨_, _, _, rfl⟩ <;> rfl

/-- an accepted magnitude is an `int` exactly when it is the value of an integer literal -/
theorem Written.int_iff {m : Mag α} (h : Written m) :
    m.isInt = true ↔ ∃ (text : String) (i : Int), pyInt text = .ok i ∧ m = .int i := by
  constructor
  · intro hi
    rcases h with h | ⟨_, _, _, rfl⟩
    · exact h
    · cases hi
  · rintro ⟨_, _, _, rfl⟩; rfl

/-- what `int(text)` accepts is `[+-]digits` — no `.`, no exponent — and its value is the
    decimal value of those digits: an `int` magnitude can only come from an integer literal. -/
theorem pyInt_ok_shape {t : String} {i : Int} (h : pyInt t = .ok i) :
    (stripSign t.toList).isEmpty = false ∧ (stripSign t.toList).all isDigit = true ∧
    i = (if isNegChars t.toList then -((Nat.ofDigitChars 10 (stripSign t.toList) 0 : Nat) : Int)
         else ((Nat.ofDigitChars 10 (stripSign t.toList) 0 : Nat) : Int)) := by
  unfold pyInt at h
  dsimp only at h
  split at h
  · cases h
  · cases hi : intOfChars t.toList with
    | none => rw [hi] at h; cases h
    | some j =>
      rw [hi] at h
      injection h with h
      subst h
      unfold intOfChars at hi
      split at hi
      · cases hi
      · rename_i hc
        have hc' : (stripSign t.toList).isEmpty = false ∧ (stripSign t.toList).all isDigit = true := by
          cases h1 : (stripSign t.toList).isEmpty <;> cases h2 : (stripSign t.toList).all isDigit <;> simp_all
        refine ⟨hc'.1, hc'.2, ?_⟩
        split at hi
        · rename_i hn; injection hi with hi; rw [if_pos hn]; exact hi.symm
        · rename_i hn; injection hi with hi; rw [if_neg hn]; exact hi.symm


/-- every unit mentioned by a semantic value exists -/
inductive VOK (s : St) : Val α → Prop
  | tok (t : Tok) : VOK s (.tok t)
  | unit (u : UId) (h : u < s.units.length) : VOK s (.unit u)
  | exp (n : Int) : VOK s (.exp n)
  | mag (m : Mag α) (hm : Written m) : VOK s (.mag m)
  | qty (q : Qty α) (h : q.unit < s.units.length) (hm : Written q.mag) : VOK s (.qty q)
  | tree (name : String) (ch : List (Val α)) (h : ∀ c ∈ ch, VOK s c) : VOK s (.tree name ch)

theorem VOK.mono {s s' : St} (f : Frame s s') : ∀ {v : Val α}, VOK s v → VOK s' v
  | _, .tok t => .tok t
  | _, .unit u h => .unit u (Nat.lt_of_lt_of_le h f.len)
  | _, .exp n => .exp n
  | _, .mag m hm => .mag m hm
  | _, .qty q h hm => .qty q (Nat.lt_of_lt_of_le h f.len) hm
  | _, .tree name ch h => .tree name ch (fun c hc => VOK.mono f (h c hc))

theorem filterKids_vok {s : St} {args : List (Val α)} (h : ∀ a ∈ args, VOK s a) : ∀ k ∈ filterKids args, VOK s k := by
  intro k hk
  unfold filterKids at hk
  obtain ⟨a, ha, hka⟩ := List.mem_flatMap.mp hk
  have hva := h a ha
  cases a with
  | tok t =>
    simp only at hka
    split at hka
    · cases hka
    · simp at hka; subst hka; exact hva
  | tree n ch =>
    simp only at hka
    split at hka
    · cases hva with | tree _ _ hch => exact hch k hka
    · simp at hka; subst hka; exact hva
  | unit u => simp at hka; subst hka; exact hva
  | exp n => simp at hka; subst hka; exact hva
  | mag m => simp at hka; subst hka; exact hva
  | qty q => simp at hka; subst hka; exact hva

/-! ### termUnit and mulAll: good, bounded, stable -/

theorem termUnit_good {s : St} (h : Good s) (sym : String) (n : Int) :
    Good (termUnit s sym n).1 ∧ ∀ u, (termUnit s sym n).2 = .ok u → u < (termUnit s sym n).1.units.length := by
  unfold termUnit
  have hg := good_resolveSymbol h sym
  have hlt := fun i => resolveSymbol_lt (s := s) (t := sym) (i := i) h.1.2
  cases hr : s.resolveSymbol sym with
  | mk s1 r =>
    rw [hr] at hg hlt
    cases r with
    | error e => exact ⟨hg, fun u hu => by cases hu⟩
    | ok u =>
      simp only
      have hu := hlt u rfl
      exact ⟨good_powUnit hg hu n, fun v hv => by injection hv with hv; subst hv; exact powUnit_lt _ _ _⟩

theorem termUnit_stable {s s2 : St} (h : Good s) (sym : String) (n : Int) (hc2 : Canon s2)
    (hf : Frame (termUnit s sym n).1 s2) : termUnit s2 sym n = (s2, (termUnit s sym n).2) := by
  unfold termUnit at hf ⊢
  have hst := fun (hx : Frame (s.resolveSymbol sym).1 s2) => resolveSymbol_stable (s := s) h.1.2 sym hc2 hx
  have hlt := fun i => resolveSymbol_lt (s := s) (t := sym) (i := i) h.1.2
  cases hr : s.resolveSymbol sym with
  | mk s1 r =>
    rw [hr] at hf hst hlt
    cases r with
    | error e =>
      simp only at hf ⊢
      rw [hst hf]
    | ok u =>
      simp only at hf ⊢
      have hu := hlt u rfl
      have hf1 : Frame s1 s2 := (powUnit_frame s1 u n).trans hf
      rw [hst hf1]
      simp only
      rw [powUnit_stable hu n hc2 hf]

theorem mulAll_good : ∀ (rest : List (Val α)) (s : St) (acc : UId), Good s → acc < s.units.length →
    (∀ v ∈ rest, VOK s v) →
    Good (mulAll s acc rest).1 ∧ ∀ u, (mulAll s acc rest).2 = .ok u → u < (mulAll s acc rest).1.units.length
  | [], s, acc, h, ha, _ => ⟨h, fun u hu => by simp [mulAll] at hu; subst hu; exact ha⟩
  | v :: rest, s, acc, h, ha, hv => by
    have hv0 := hv v List.mem_cons_self
    cases v with
    | unit w =>
      have hw : w < s.units.length := by cases hv0 with | unit _ hw => exact hw
      unfold mulAll
      have hg := good_mulUnit h ha hw
      have hfr := (mulUnit_frame s acc w).1
      have hlt := fun i => mulUnit_lt s acc w (i := i)
      cases hm : s.mulUnit acc w with
      | mk s1 r =>
        rw [hm] at hg hfr hlt
        cases r with
        | error e => exact ⟨hg, fun u hu => by cases hu⟩
        | ok u =>
          simp only
          exact mulAll_good rest s1 u hg (hlt u rfl)
            (fun x hx => VOK.mono hfr (hv x (List.mem_cons_of_mem _ hx)))
    | tok _ => exact ⟨h, fun u hu => by simp [mulAll] at hu⟩
    | exp _ => exact ⟨h, fun u hu => by simp [mulAll] at hu⟩
    | mag _ => exact ⟨h, fun u hu => by simp [mulAll] at hu⟩
    | qty _ => exact ⟨h, fun u hu => by simp [mulAll] at hu⟩
    | tree _ _ => exact ⟨h, fun u hu => by simp [mulAll] at hu⟩

theorem mulAll_stable : ∀ (rest : List (Val α)) (s : St) (acc : UId) (s2 : St), Good s → acc < s.units.length →
    (∀ v ∈ rest, VOK s v) → Canon s2 → Frame (mulAll s acc rest).1 s2 →
    mulAll s2 acc rest = (s2, (mulAll s acc rest).2)
  | [], s, acc, s2, _, _, _, _, _ => rfl
  | v :: rest, s, acc, s2, h, ha, hv, hc2, hf => by
    have hv0 := hv v List.mem_cons_self
    cases v with
    | unit w =>
      have hw : w < s.units.length := by cases hv0 with | unit _ hw => exact hw
      unfold mulAll at hf ⊢
      have hg := good_mulUnit h ha hw
      have hfr := (mulUnit_frame s acc w).1
      have hlt := fun i => mulUnit_lt s acc w (i := i)
      have hst := fun (hx : Frame (s.mulUnit acc w).1 s2) => mulUnit_stable (s := s) ha hw hc2 hx
      cases hm : s.mulUnit acc w with
      | mk s1 r =>
        rw [hm] at hg hfr hlt hst hf
        cases r with
        | error e =>
          simp only at hf ⊢
          rw [hst hf]
        | ok u =>
          simp only at hf ⊢
          have hvr : ∀ x ∈ rest, VOK s1 x := fun x hx => VOK.mono hfr (hv x (List.mem_cons_of_mem _ hx))
          have hmid : Frame s1 (mulAll s1 u rest).1 := (mulAll_frame rest s1 u).1
          rw [hst (hmid.trans hf)]
          simp only
          exact mulAll_stable rest s1 u s2 hg (hlt u rfl) hvr hc2 hf
    | tok _ => rfl
    | exp _ => rfl
    | mag _ => rfl
    | qty _ => rfl
    | tree _ _ => rfl

end
end Measured

namespace Measured
open St

section
variable {α : Type} [FloatLike α]

/-- what one callback must satisfy -/
def ActOK (f : St → List (Val α) → St × Except Exc (Val α)) : Prop :=
  ∀ s kids, Good s → (∀ k ∈ kids, VOK s k) →
    (Good (f s kids).1 ∧ ∀ v, (f s kids).2 = .ok v → VOK (f s kids).1 v) ∧
    ∀ s2, Frame (f s kids).1 s2 → Good s2 → f s2 kids = (s2, (f s kids).2)

/-- a callback that never touches the state -/
theorem actOK_pure (g : List (Val α) → Except Exc (Val α)) (hg : ∀ kids v, g kids = .ok v → ∀ s : St, (∀ k ∈ kids, VOK s k) → VOK s v) :
    ActOK (fun s kids => (s, g kids)) := by
  intro s kids h hk
  exact ⟨⟨h, fun v hv => hg kids v hv s hk⟩, fun s2 _ _ => rfl⟩

theorem map_ok {β γ} {f : β → γ} {r : Except Exc β} {v : γ} (h : r.map f = .ok v) : ∃ b, r = .ok b ∧ v = f b := by
  cases r with
  | ok b => exact ⟨b, rfl, by injection h with h; exact h.symm⟩
  | error e => cases h

theorem pureMap_ok {β} (s : St) (r : Except Exc β) (f : β → Val α) (hf : ∀ b (s' : St), VOK s' (f b)) (h : Good s) :
    (Good ((s, r.map f) : St × Except Exc (Val α)).1 ∧
      ∀ v, ((s, r.map f) : St × Except Exc (Val α)).2 = .ok v → VOK ((s, r.map f) : St × Except Exc (Val α)).1 v) ∧
    ∀ s2, Frame ((s, r.map f) : St × Except Exc (Val α)).1 s2 → Good s2 →
      ((s2, r.map f) : St × Except Exc (Val α)) = (s2, ((s, r.map f) : St × Except Exc (Val α)).2) := by
  refine ⟨⟨h, fun v hv => ?_⟩, fun s2 _ _ => rfl⟩
  obtain ⟨b, _, rfl⟩ := map_ok hv
  exact hf b s

theorem actInt_ok : ActOK (actInt (α := α)) := by
  intro s kids h hk
  unfold actInt
  split
  · rename_i t
    refine ⟨⟨h, fun v hv => ?_⟩, fun s2 _ _ => rfl⟩
    obtain ⟨b, hb, rfl⟩ := map_ok hv
    exact .mag _ (Or.inl ⟨t.text, b, hb, rfl⟩)
  · exact ⟨⟨h, fun v hv => by cases hv⟩, fun s2 _ _ => rfl⟩

theorem actFloat_ok : ActOK (actFloat (α := α)) := by
  intro s kids h hk
  unfold actFloat
  split
  · split
    · rename_i t _ q hq
      exact ⟨⟨h, fun v hv => by injection hv with hv; subst hv; exact .mag _ (Or.inr ⟨t.text, q, hq, rfl⟩)⟩, fun s2 _ _ => rfl⟩
    · exact ⟨⟨h, fun v hv => by cases hv⟩, fun s2 _ _ => rfl⟩
  · exact ⟨⟨h, fun v hv => by cases hv⟩, fun s2 _ _ => rfl⟩

theorem actCarat_ok : ActOK (actCarat (α := α)) := by
  intro s kids h hk
  unfold actCarat
  split
  · exact pureMap_ok s _ _ (fun b s' => .exp b) h
  · exact ⟨⟨h, fun v hv => by cases hv⟩, fun s2 _ _ => rfl⟩

theorem actSuperscript_ok : ActOK (actSuperscript (α := α)) := by
  intro s kids h hk
  unfold actSuperscript
  split
  · split
    · exact pureMap_ok s _ _ (fun b s' => .exp b) h
    · exact ⟨⟨h, fun v hv => by cases hv⟩, fun s2 _ _ => rfl⟩
  · exact ⟨⟨h, fun v hv => by cases hv⟩, fun s2 _ _ => rfl⟩

theorem wrapUnit_ok {s : St} {x : St × Except Exc UId}
    (h : Good x.1 ∧ ∀ u, x.2 = .ok u → u < x.1.units.length) :
    Good (wrapUnit (α := α) x).1 ∧ ∀ v, (wrapUnit (α := α) x).2 = .ok v → VOK (wrapUnit (α := α) x).1 v := by
  refine ⟨h.1, fun v hv => ?_⟩
  obtain ⟨u, hu, rfl⟩ := map_ok hv
  exact .unit u (h.2 u hu)

theorem wrapUnit_stable {x y : St × Except Exc UId} {s2 : St} (h : y = (s2, x.2)) :
    wrapUnit (α := α) y = (s2, (wrapUnit (α := α) x).2) := by
  subst h; rfl

theorem actTerm_ok : ActOK (actTerm (α := α)) := by
  intro s kids h hk
  unfold actTerm
  split
  · rename_i t
    exact ⟨wrapUnit_ok (s := s) (termUnit_good h t.text 1),
      fun s2 hf hg2 => wrapUnit_stable (termUnit_stable h t.text 1 hg2.2 hf)⟩
  · rename_i t n
    exact ⟨wrapUnit_ok (s := s) (termUnit_good h t.text n),
      fun s2 hf hg2 => wrapUnit_stable (termUnit_stable h t.text n hg2.2 hf)⟩
  · exact ⟨⟨h, fun v hv => by cases hv⟩, fun s2 _ _ => rfl⟩

theorem actSequence_ok : ActOK (actSequence (α := α)) := by
  intro s kids h hk
  unfold actSequence
  split
  · rename_i u rest
    have hu : u < s.units.length := by
      have := hk (.unit u) List.mem_cons_self
      cases this with | unit _ hu => exact hu
    have hr : ∀ v ∈ rest, VOK s v := fun v hv => hk v (List.mem_cons_of_mem _ hv)
    exact ⟨wrapUnit_ok (s := s) (mulAll_good rest s u h hu hr),
      fun s2 hf hg2 => wrapUnit_stable (mulAll_stable rest s u s2 h hu hr hg2.2 hf)⟩
  · exact ⟨⟨h, fun v hv => by cases hv⟩, fun s2 _ _ => rfl⟩

theorem actUnit_ok : ActOK (actUnit (α := α)) := by
  intro s kids h hk
  have hone : s.one < s.units.length := h.1.1.1.oneLt
  unfold actUnit
  split
  · rename_i n
    have hn : n < s.units.length := by
      have := hk (.unit n) List.mem_cons_self
      cases this with | unit _ hu => exact hu
    refine ⟨wrapUnit_ok (s := s) ⟨good_divUnit h hn hone, fun u hu => divUnit_lt _ _ _ hu⟩, fun s2 hf hg2 => ?_⟩
    have hfs : Frame s s2 := (divUnit_frame s n s.one).1.trans hf
    have := divUnit_stable hn hone hg2.2 hf
    rw [← hfs.one] at this
    exact wrapUnit_stable (by rw [hfs.one] at this ⊢; exact this)
  · rename_i n d
    have hn : n < s.units.length := by
      have := hk (.unit n) List.mem_cons_self
      cases this with | unit _ hu => exact hu
    have hd : d < s.units.length := by
      have := hk (.unit d) (List.mem_cons_of_mem _ List.mem_cons_self)
      cases this with | unit _ hu => exact hu
    exact ⟨wrapUnit_ok (s := s) ⟨good_divUnit h hn hd, fun u hu => divUnit_lt _ _ _ hu⟩,
      fun s2 hf hg2 => wrapUnit_stable (divUnit_stable hn hd hg2.2 hf)⟩
  · exact ⟨⟨h, fun v hv => by cases hv⟩, fun s2 _ _ => rfl⟩

theorem actQuantity_ok : ActOK (actQuantity (α := α)) := by
  intro s kids h hk
  unfold actQuantity
  split
  · rename_i m u
    have hu : u < s.units.length := by
      have := hk (.unit u) (List.mem_cons_of_mem _ List.mem_cons_self)
      cases this with | unit _ hu => exact hu
    have hm : Written m := by
      have := hk (.mag m) List.mem_cons_self
      cases this with | mag _ hm => exact hm
    exact ⟨⟨h, fun v hv => by injection hv with hv; subst hv; exact .qty _ hu hm⟩, fun s2 _ _ => rfl⟩
  · exact ⟨⟨h, fun v hv => by cases hv⟩, fun s2 _ _ => rfl⟩

/-- which callback a rule dispatches to depends on the rule only, not on the state -/
theorem transformerAct_cases (r : GRule) (args : List (Val α)) :
    (∃ f : St → List (Val α) → St × Except Exc (Val α), ActOK f ∧ ∀ s, transformerAct s r args = f s (filterKids args)) ∨
    (∀ s, transformerAct s r args = (s, .ok (.tree (r.alias.getD r.origin) (filterKids args)))) ∨
    (∀ s, transformerAct (α := α) s r args = (s, .error .unmodelled)) := by
  by_cases h1 : r.alias.getD r.origin = "int"
  · exact Or.inl ⟨_, actInt_ok, fun s => by unfold transformerAct; dsimp only; rw [if_pos h1]⟩
  by_cases h2 : r.alias.getD r.origin = "float"
  · exact Or.inl ⟨_, actFloat_ok, fun s => by unfold transformerAct; dsimp only; rw [if_neg h1, if_pos h2]⟩
  by_cases h3 : r.alias.getD r.origin = "carat_exponent"
  · exact Or.inl ⟨_, actCarat_ok, fun s => by unfold transformerAct; dsimp only; rw [if_neg h1, if_neg h2, if_pos h3]⟩
  by_cases h4 : r.alias.getD r.origin = "superscript_exponent"
  · exact Or.inl ⟨_, actSuperscript_ok, fun s => by unfold transformerAct; dsimp only; rw [if_neg h1, if_neg h2, if_neg h3, if_pos h4]⟩
  by_cases h5 : r.alias.getD r.origin = "term"
  · exact Or.inl ⟨_, actTerm_ok, fun s => by unfold transformerAct; dsimp only; rw [if_neg h1, if_neg h2, if_neg h3, if_neg h4, if_pos h5]⟩
  by_cases h6 : r.alias.getD r.origin = "unit_sequence"
  · exact Or.inl ⟨_, actSequence_ok, fun s => by unfold transformerAct; dsimp only; rw [if_neg h1, if_neg h2, if_neg h3, if_neg h4, if_neg h5, if_pos h6]⟩
  by_cases h7 : r.alias.getD r.origin = "unit"
  · exact Or.inl ⟨_, actUnit_ok, fun s => by unfold transformerAct; dsimp only; rw [if_neg h1, if_neg h2, if_neg h3, if_neg h4, if_neg h5, if_neg h6, if_pos h7]⟩
  by_cases h8 : r.alias.getD r.origin = "quantity"
  · exact Or.inl ⟨_, actQuantity_ok, fun s => by unfold transformerAct; dsimp only; rw [if_neg h1, if_neg h2, if_neg h3, if_neg h4, if_neg h5, if_neg h6, if_neg h7, if_pos h8]⟩
  by_cases h9 : (r.alias.getD r.origin).startsWith "_" = true
  · exact Or.inr (Or.inl fun s => by unfold transformerAct; dsimp only; rw [if_neg h1, if_neg h2, if_neg h3, if_neg h4, if_neg h5, if_neg h6, if_neg h7, if_neg h8, if_pos h9])
  · exact Or.inr (Or.inr fun s => by unfold transformerAct; dsimp only; rw [if_neg h1, if_neg h2, if_neg h3, if_neg h4, if_neg h5, if_neg h6, if_neg h7, if_neg h8, if_neg h9])

/-- **Every transformer callback is good and stable.** -/
theorem transformerAct_ok (s : St) (r : GRule) (args : List (Val α)) (h : Good s) (ha : ∀ a ∈ args, VOK s a) :
    (Good (transformerAct s r args).1 ∧ ∀ v, (transformerAct s r args).2 = .ok v → VOK (transformerAct s r args).1 v) ∧
    ∀ s2, Frame (transformerAct s r args).1 s2 → Good s2 →
      transformerAct s2 r args = (s2, (transformerAct s r args).2) := by
  have hk := filterKids_vok ha
  rcases transformerAct_cases r args with ⟨f, hf, heq⟩ | heq | heq
  · have := hf s (filterKids args) h hk
    refine ⟨by rw [heq s]; exact this.1, fun s2 hfr hg2 => ?_⟩
    rw [heq s2, heq s]
    rw [heq s] at hfr
    exact this.2 s2 hfr hg2
  · refine ⟨by rw [heq s]; exact ⟨h, fun v hv => by injection hv with hv; subst hv; exact .tree _ _ hk⟩, fun s2 _ _ => ?_⟩
    rw [heq s2, heq s]
  · refine ⟨by rw [heq s]; exact ⟨h, fun v hv => by cases hv⟩, fun s2 _ _ => ?_⟩
    rw [heq s2, heq s]

/-- the package the generic lemma wants -/
theorem transformer_stableActs : StableActs (transformerAct (α := α)) Val.tok Good Frame (VOK (α := α)) where
  le_refl := Frame.refl
  le_trans := fun _ _ _ => Frame.trans
  vok_mono := fun _ _ _ f h => VOK.mono f h
  vok_tok := fun _ t => .tok t
  act_le := fun s r args => (transformerAct_frame s r args).1
  act_good := fun s r args h ha => (transformerAct_ok s r args h ha).1
  act_stable := fun s r args h ha => (transformerAct_ok s r args h ha).2

end
end Measured
