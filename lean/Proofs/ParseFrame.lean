/-
  Proofs/ParseFrame.lean — what a parser callback can do to the unit table, and how it can fail.

  `Frame s s'`: `s'` has exactly the registries of `s` (names, symbols, prefix and dimension
  tables, name/symbol logs, base units, One) and its unit table is `s.units` followed by newly
  interned anonymous units.  Every `QuantityTransformer` callback is framed, and the only errors
  it can produce are `parseError`, `keyError` or the model's own `unmodelled`.
-/
import Model.Text
import Proofs.ParseGen

namespace Measured

structure Frame (s s' : St) : Prop where
  ndim       : s'.ndim = s.ndim
  nameLog    : s'.nameLog = s.nameLog
  symLog     : s'.symLog = s.symLog
  unitByName : s'.unitByName = s.unitByName
  unitBySym  : s'.unitBySym = s.unitBySym
  pfxByName  : s'.pfxByName = s.pfxByName
  pfxBySym   : s'.pfxBySym = s.pfxBySym
  dimByName  : s'.dimByName = s.dimByName
  base       : s'.base = s.base
  one        : s'.one = s.one
  units      : ∃ ext, s'.units = s.units ++ ext

theorem Frame.refl (s : St) : Frame s s :=
  ⟨rfl, rfl, rfl, rfl, rfl, rfl, rfl, rfl, rfl, rfl, ⟨[], by simp⟩⟩

theorem Frame.trans {a b c : St} (h1 : Frame a b) (h2 : Frame b c) : Frame a c := by
  obtain ⟨e1, he1⟩ := h1.units
  obtain ⟨e2, he2⟩ := h2.units
  exact ⟨h2.ndim.trans h1.ndim, h2.nameLog.trans h1.nameLog, h2.symLog.trans h1.symLog,
    h2.unitByName.trans h1.unitByName, h2.unitBySym.trans h1.unitBySym, h2.pfxByName.trans h1.pfxByName,
    h2.pfxBySym.trans h1.pfxBySym, h2.dimByName.trans h1.dimByName, h2.base.trans h1.base,
    h2.one.trans h1.one, ⟨e1 ++ e2, by rw [he2, he1, List.append_assoc]⟩⟩

/-- The exceptions `Unit.parse` / `Quantity.parse` may raise (`unmodelled` = the model declines). -/
def Allowed (e : Exc) : Prop := e = .parseError ∨ e = .keyError ∨ e = .unmodelled

theorem newUnit_frame (s : St) (p : Pfx) (fs : Factors) (d : Dim) : Frame s (s.newUnit p fs d).1 := by
  unfold St.newUnit
  split
  · exact Frame.refl s
  · exact ⟨rfl, rfl, rfl, rfl, rfl, rfl, rfl, rfl, rfl, rfl, ⟨_, rfl⟩⟩

theorem pfx_mul_err {a b : Pfx} {e : Exc} (h : Pfx.mul a b = .error e) : e = .unmodelled := by
  unfold Pfx.mul at h
  split at h
  · cases h
  · split at h
    · cases h
    · split at h
      · cases h
      · cases h; rfl

theorem pfx_div_err {a b : Pfx} {e : Exc} (h : Pfx.div a b = .error e) : e = .unmodelled := by
  unfold Pfx.div at h
  split at h
  · cases h
  · split at h
    · cases h
    · split at h
      · cases h
      · cases h; rfl

theorem mulUnit_frame (s : St) (a b : UId) :
    Frame s (s.mulUnit a b).1 ∧ ∀ e, (s.mulUnit a b).2 = .error e → Allowed e := by
  unfold St.mulUnit
  simp only
  split
  · rename_i e he
    exact ⟨Frame.refl s, fun e' h => by cases h; exact Or.inr (Or.inr (pfx_mul_err he))⟩
  · exact ⟨newUnit_frame _ _ _ _, fun e h => by cases h⟩

theorem divUnit_frame (s : St) (a b : UId) :
    Frame s (s.divUnit a b).1 ∧ ∀ e, (s.divUnit a b).2 = .error e → Allowed e := by
  unfold St.divUnit
  simp only
  split
  · rename_i e he
    exact ⟨Frame.refl s, fun e' h => by cases h; exact Or.inr (Or.inr (pfx_div_err he))⟩
  · exact ⟨newUnit_frame _ _ _ _, fun e h => by cases h⟩

theorem powUnit_frame (s : St) (a : UId) (n : Int) : Frame s (s.powUnit a n).1 := by
  unfold St.powUnit
  exact newUnit_frame _ _ _ _

theorem pmulUnit_frame (s : St) (p : Pfx) (a : UId) :
    Frame s (s.pmulUnit p a).1 ∧ ∀ e, (s.pmulUnit p a).2 = .error e → Allowed e := by
  unfold St.pmulUnit
  simp only
  split
  · rename_i e he
    exact ⟨Frame.refl s, fun e' h => by cases h; exact Or.inr (Or.inr (pfx_mul_err he))⟩
  · exact ⟨newUnit_frame _ _ _ _, fun e h => by cases h⟩

theorem resolveSymbol_frame (s : St) (t : String) :
    Frame s (s.resolveSymbol t).1 ∧ ∀ e, (s.resolveSymbol t).2 = .error e → Allowed e := by
  unfold St.resolveSymbol
  split
  · exact ⟨Frame.refl s, fun e h => by cases h⟩
  · simp only
    split
    · exact pmulUnit_frame _ _ _
    · split
      · exact ⟨Frame.refl s, fun e h => by cases h⟩
      · exact ⟨Frame.refl s, fun e h => by cases h; exact Or.inr (Or.inl rfl)⟩

section
variable {α : Type}

theorem termUnit_frame (s : St) (sym : String) (n : Int) :
    Frame s (termUnit s sym n).1 ∧ ∀ e, (termUnit s sym n).2 = .error e → Allowed e := by
  unfold termUnit
  have h := resolveSymbol_frame s sym
  split
  · rename_i s' u heq
    rw [heq] at h
    exact ⟨h.1.trans (powUnit_frame _ _ _), fun e he => by cases he⟩
  · rename_i s' e heq
    rw [heq] at h
    exact ⟨h.1, fun e' he => by cases he; exact h.2 _ rfl⟩

theorem mulAll_frame : ∀ (rest : List (Val α)) (s : St) (acc : UId),
    Frame s (mulAll s acc rest).1 ∧ ∀ e, (mulAll s acc rest).2 = .error e → Allowed e
  | [], s, acc => ⟨Frame.refl s, fun e h => by cases h⟩
  | v :: rest, s, acc => by
    cases v with
    | unit w =>
      unfold mulAll
      have h := mulUnit_frame s acc w
      split
      · rename_i s' u heq
        rw [heq] at h
        have ih := mulAll_frame rest s' u
        exact ⟨h.1.trans ih.1, ih.2⟩
      · rename_i s' e heq
        rw [heq] at h
        exact ⟨h.1, fun e' he => by cases he; exact h.2 _ rfl⟩
    | tok _ => exact ⟨Frame.refl s, fun e h => by cases h; exact Or.inr (Or.inr rfl)⟩
    | exp _ => exact ⟨Frame.refl s, fun e h => by cases h; exact Or.inr (Or.inr rfl)⟩
    | mag _ => exact ⟨Frame.refl s, fun e h => by cases h; exact Or.inr (Or.inr rfl)⟩
    | qty _ => exact ⟨Frame.refl s, fun e h => by cases h; exact Or.inr (Or.inr rfl)⟩
    | tree _ _ => exact ⟨Frame.refl s, fun e h => by cases h; exact Or.inr (Or.inr rfl)⟩

theorem pyInt_err {t : String} {e : Exc} (h : pyInt t = .error e) : e = .parseError := by
  unfold pyInt at h
  simp only at h
  split at h
  · cases h; rfl
  · split at h
    · cases h
    · cases h; rfl

theorem map_err {β γ} {f : β → γ} {r : Except Exc β} {e : Exc} (h : r.map f = .error e) : r = .error e := by
  cases r with
  | ok a => cases h
  | error e' => cases h; rfl

variable [FloatLike α]

theorem wrapUnit_good {s : St} {x : St × Except Exc UId}
    (h : Frame s x.1 ∧ ∀ e, x.2 = .error e → Allowed e) :
    Frame s (wrapUnit (α := α) x).1 ∧ ∀ e, (wrapUnit (α := α) x).2 = .error e → Allowed e :=
  ⟨h.1, fun e he => h.2 e (map_err he)⟩

theorem bad_good (s : St) :
    Frame s ((s, .error .unmodelled) : St × Except Exc (Val α)).1 ∧
      ∀ e, ((s, .error .unmodelled) : St × Except Exc (Val α)).2 = .error e → Allowed e :=
  ⟨Frame.refl s, fun e h => by cases h; exact Or.inr (Or.inr rfl)⟩

theorem int_good {β} (s : St) (r : Except Exc β) (f : β → Val α)
    (hr : ∀ e, r = .error e → e = .parseError) :
    Frame s ((s, r.map f) : St × Except Exc (Val α)).1 ∧
      ∀ e, ((s, r.map f) : St × Except Exc (Val α)).2 = .error e → Allowed e :=
  ⟨Frame.refl s, fun e h => Or.inl (hr e (map_err h))⟩

theorem actInt_good (s : St) (k : List (Val α)) :
    Frame s (actInt s k).1 ∧ ∀ e, (actInt s k).2 = .error e → Allowed e := by
  unfold actInt
  split
  · exact int_good s _ _ (fun e => pyInt_err)
  · exact bad_good s

theorem actFloat_good (s : St) (k : List (Val α)) :
    Frame s (actFloat s k).1 ∧ ∀ e, (actFloat s k).2 = .error e → Allowed e := by
  unfold actFloat
  split
  · split
    · exact ⟨Frame.refl s, fun e h => by cases h⟩
    · exact bad_good s
  · exact bad_good s

theorem actCarat_good (s : St) (k : List (Val α)) :
    Frame s (actCarat s k).1 ∧ ∀ e, (actCarat s k).2 = .error e → Allowed e := by
  unfold actCarat
  split
  · exact int_good s _ _ (fun e => pyInt_err)
  · exact bad_good s

theorem actSuperscript_good (s : St) (k : List (Val α)) :
    Frame s (actSuperscript s k).1 ∧ ∀ e, (actSuperscript s k).2 = .error e → Allowed e := by
  unfold actSuperscript
  split
  · split
    · exact int_good s _ _ (fun e => pyInt_err)
    · exact ⟨Frame.refl s, fun e h => by cases h; exact Or.inr (Or.inl rfl)⟩
  · exact bad_good s

theorem actTerm_good (s : St) (k : List (Val α)) :
    Frame s (actTerm s k).1 ∧ ∀ e, (actTerm s k).2 = .error e → Allowed e := by
  unfold actTerm
  split
  · exact wrapUnit_good (termUnit_frame _ _ _)
  · exact wrapUnit_good (termUnit_frame _ _ _)
  · exact bad_good s

theorem actSequence_good (s : St) (k : List (Val α)) :
    Frame s (actSequence s k).1 ∧ ∀ e, (actSequence s k).2 = .error e → Allowed e := by
  unfold actSequence
  split
  · exact wrapUnit_good (mulAll_frame _ _ _)
  · exact bad_good s

theorem actUnit_good (s : St) (k : List (Val α)) :
    Frame s (actUnit s k).1 ∧ ∀ e, (actUnit s k).2 = .error e → Allowed e := by
  unfold actUnit
  split
  · exact wrapUnit_good (divUnit_frame _ _ _)
  · exact wrapUnit_good (divUnit_frame _ _ _)
  · exact bad_good s

theorem actQuantity_good (s : St) (k : List (Val α)) :
    Frame s (actQuantity s k).1 ∧ ∀ e, (actQuantity s k).2 = .error e → Allowed e := by
  unfold actQuantity
  split
  · exact ⟨Frame.refl s, fun e h => by cases h⟩
  · exact bad_good s

/-- Every callback of the transformer is framed and fails only in the allowed ways. -/
theorem transformerAct_frame (s : St) (r : GRule) (args : List (Val α)) :
    Frame s (transformerAct s r args).1 ∧ ∀ e, (transformerAct s r args).2 = .error e → Allowed e := by
  unfold transformerAct
  simp only
  split; · exact actInt_good _ _
  split; · exact actFloat_good _ _
  split; · exact actCarat_good _ _
  split; · exact actSuperscript_good _ _
  split; · exact actTerm_good _ _
  split; · exact actSequence_good _ _
  split; · exact actUnit_good _ _
  split; · exact actQuantity_good _ _
  split
  · exact ⟨Frame.refl s, fun e h => by cases h⟩
  · exact bad_good s

end
end Measured
