/-
  Model/Units.lean — the unit intern table and the unit algebra.

  Source modelled: /repo/src/measured/__init__.py  class Unit
    (__new__, __init__, _build_key, define, derive, alias, named, resolve_symbol,
     _simplify, quantify (unit part), _multiply, _divide, __pow__, root, as_ratio)
  and Prefix.__mul__(Unit).

  Object identity is modelled explicitly: the state holds `Unit._known` as an
  insertion-ordered list and a unit object *is* its creation ordinal (index).  Python sorts
  the factor items by `id()` to build the key; any injective total order gives the same
  canonical key, here the ordinal.
-/
import Model.Basic

namespace Measured

abbrev UId := Nat
/-- `Unit.factors`: insertion-ordered mapping base-unit ↦ exponent (a Python dict). -/
abbrev Factors := List (UId × Int)

structure UnitRec where
  pfx     : Pfx
  factors : Factors
  dim     : Dim
  deriving DecidableEq, Repr, Inhabited

structure St where
  ndim       : Nat                              -- number of fundamental dimensions
  units      : List UnitRec                     -- Unit._known.values(), insertion order
  nameLog    : List (UId × String) := []        -- every (unit, name) of the units' `names` tuples
  symLog     : List (UId × String) := []        -- every (unit, symbol) of the `symbols` tuples
  unitByName : List (String × UId) := []        -- Unit._by_name
  unitBySym  : List (String × UId) := []        -- Unit._by_symbol
  pfxByName  : List (String × Pfx) := []        -- Prefix._by_name
  pfxBySym   : List (String × Pfx) := []        -- Prefix._by_symbol
  dimByName  : List (String × Dim) := []        -- Dimension._by_name
  base       : List UId := []                   -- Unit._base (as a list, creation order)
  one        : UId := 0                         -- the unit `One`
  deriving Repr, Inhabited

/-! ### dict helpers (insertion-ordered association lists with unique keys) -/

def lookup {β} (k : String) : List (String × β) → Option β
  | [] => none
  | (k', v) :: rest => if k' == k then some v else lookup k rest

/-- `d[k] += e`, appending `k` at the end when absent (Python dict / defaultdict(int)). -/
def insertAdd (fs : Factors) (k : UId) (e : Int) : Factors :=
  match fs with
  | [] => [(k, e)]
  | (k', e') :: rest => if k' = k then (k', e' + e) :: rest else (k', e') :: insertAdd rest k e

/-- `for unit, exponent in other.items(): factors[unit] += exponent`. -/
def mergeAdd (a b : Factors) : Factors := b.foldl (fun acc p => insertAdd acc p.1 p.2) a

def negate (fs : Factors) : Factors := fs.map (fun p => (p.1, -p.2))

/-- `Unit._simplify`: drop `One` and zero exponents; `{One: 1}` when nothing is left. -/
def simplify (one : UId) (fs : Factors) : Factors :=
  let kept := fs.filter (fun p => p.1 != one && p.2 != 0)
  if kept.isEmpty then [(one, 1)] else kept

/-- `Unit._build_key`'s factor part: the items sorted by the identity of the base unit. -/
def sortKey (fs : Factors) : Factors := isort (fun a b => decide (a.1 ≤ b.1)) fs

/-- `key in cls._known` / `cls._known[key]`. -/
def findUnit (us : List UnitRec) (p : Pfx) (fs : Factors) : Option UId :=
  let k := sortKey fs
  us.findIdx? (fun u => u.pfx == p && sortKey u.factors == k)

namespace St

def unit? (s : St) (i : UId) : Option UnitRec := s.units[i]?
def unit! (s : St) (i : UId) : UnitRec := s.units.getD i default
def dimOfUnit (s : St) (i : UId) : Dim := (s.unit! i).dim
/-- `unit.names` -/
def namesOf (s : St) (i : UId) : List String := (s.nameLog.filter (fun e => e.1 == i)).map (·.2)
/-- `unit.symbols` -/
def symsOf (s : St) (i : UId) : List String := (s.symLog.filter (fun e => e.1 == i)).map (·.2)

/-- `Unit(prefix, factors, dimension)` without a name: return the interned unit with this
    key **ignoring `dimension`**, else intern a new record carrying `dimension`. -/
def newUnit (s : St) (p : Pfx) (fs : Factors) (d : Dim) : St × UId :=
  match findUnit s.units p fs with
  | some i => (s, i)
  | none => ({ s with units := s.units ++ [{ pfx := p, factors := fs, dim := d }] }, s.units.length)

/-- `Unit._multiply`. -/
def mulUnit (s : St) (a b : UId) : St × Except Exc UId :=
  let ua := s.unit! a; let ub := s.unit! b
  match Pfx.mul ua.pfx ub.pfx with
  | .error e => (s, .error e)
  | .ok p =>
    let (s', i) := s.newUnit p (simplify s.one (mergeAdd ua.factors ub.factors)) (ua.dim.mul ub.dim)
    (s', .ok i)

/-- `Unit._divide`. -/
def divUnit (s : St) (a b : UId) : St × Except Exc UId :=
  let ua := s.unit! a; let ub := s.unit! b
  match Pfx.div ua.pfx ub.pfx with
  | .error e => (s, .error e)
  | .ok p =>
    let (s', i) := s.newUnit p (simplify s.one (mergeAdd ua.factors (negate ub.factors))) (ua.dim.div ub.dim)
    (s', .ok i)

/-- `Unit.__pow__`. -/
def powUnit (s : St) (a : UId) (n : Int) : St × UId :=
  let ua := s.unit! a
  s.newUnit (ua.pfx.pow n) (simplify s.one (ua.factors.map (fun p => (p.1, p.2 * n)))) (ua.dim.pow n)

/-- `Unit.root` (after the `fix:` commit every non-`One` factor must be divisible). -/
def rootUnit (s : St) (a : UId) (n : Int) : St × Except Exc UId :=
  if n == 0 then (s, .ok s.one) else
  let ua := s.unit! a
  match ua.dim.root n with
  | .error e => (s, .error e)
  | .ok d =>
    match ua.pfx.root n with
    | .error e => (s, .error e)
    | .ok p =>
      if ua.factors.any (fun f => f.1 != s.one && f.2 % n != 0) then (s, .error .fractional)
      else
        let (s', i) := s.newUnit p (simplify s.one (ua.factors.map (fun f => (f.1, Int.fdiv f.2 n)))) d
        (s', .ok i)

/-- The dimension of a factor mapping: `reduce(mul, (u.dimension**e for u, e in fs.items()))`
    (written as a right fold; dimension vectors of one length form a commutative monoid, so
    the fold direction does not matter for the value, and a dimension *is* its value). -/
def dimOf (s : St) (fs : Factors) : Dim :=
  fs.foldr (fun f d => Dim.mul ((s.dimOfUnit f.1).pow f.2) d) (Dim.number s.ndim)

/-- `Unit.as_ratio` (after the `fix:` commit: each side's dimension is the product of its
    own kept factors' dimensions). -/
def asRatio (s : St) (a : UId) : St × UId × UId :=
  let ua := s.unit! a
  let num := ua.factors.filter (fun f => f.2 ≥ 0)
  let num := if num.isEmpty then [(s.one, (1 : Int))] else num
  let den := (ua.factors.filter (fun f => f.2 < 0)).map (fun f => (f.1, -f.2))
  let den := if den.isEmpty then [(s.one, (1 : Int))] else den
  let (s1, n) := s.newUnit ua.pfx num (s.dimOf num)
  let (s2, d) := s1.newUnit Pfx.identity den (s1.dimOf den)
  (s2, n, d)

/-- The unit part of `Unit.quantify`: `Unit(IdentityPrefix, self.factors, self.dimension)`. -/
def unprefixedUnit (s : St) (a : UId) : St × UId :=
  let ua := s.unit! a
  s.newUnit Pfx.identity ua.factors ua.dim

/-- `Prefix.__mul__(Unit)`: `Unit(other.prefix * self, other.factors, other.dimension)`. -/
def pmulUnit (s : St) (p : Pfx) (a : UId) : St × Except Exc UId :=
  let ua := s.unit! a
  match Pfx.mul ua.pfx p with
  | .error e => (s, .error e)
  | .ok p' => let (s', i) := s.newUnit p' ua.factors ua.dim; (s', .ok i)

/-! ### naming -/

def nameClash (s : St) (a : UId) : Option String → Bool
  | some n => n != "" && (match lookup n s.unitByName with | some j => j != a | none => false)
  | none => false

def symClash (s : St) (a : UId) : Option String → Bool
  | some y => y != "" && ((match lookup y s.unitBySym with | some j => j != a | none => false)
                          || y.contains ' ')
  | none => false

/-- `self.names = self.names + (name,); self._by_name[name] = self` -/
def bindName (s : St) (a : UId) : Option String → St
  | some n => if n == "" then s else
      { s with nameLog := s.nameLog ++ [(a, n)],
               unitByName := if (lookup n s.unitByName).isSome then s.unitByName else s.unitByName ++ [(n, a)] }
  | none => s

/-- `self.symbols = self.symbols + (symbol,); self._by_symbol[symbol] = self` -/
def bindSym (s : St) (a : UId) : Option String → St
  | some y => if y == "" then s else
      { s with symLog := s.symLog ++ [(a, y)],
               unitBySym := if (lookup y s.unitBySym).isSome then s.unitBySym else s.unitBySym ++ [(y, a)] }
  | none => s

/-- `Unit.alias` (after the `fix:` commit: all checks, then all mutations). -/
def aliasUnit (s : St) (a : UId) (name sym : Option String) : St × Except Exc Unit :=
  if s.nameClash a name then (s, .error .valueError)
  else if s.symClash a sym then (s, .error .valueError)
  else ((s.bindName a name).bindSym a sym, .ok ())

/-- Intern a fresh base unit: its key is `{self: 1}`. -/
def appendBase (s : St) (d : Dim) : St :=
  { s with units := s.units ++ [({ pfx := Pfx.identity, factors := [(s.units.length, 1)], dim := d } : UnitRec)],
           base := s.base ++ [s.units.length] }

/-- `Unit.define` (base unit). -/
def defineUnit (s : St) (d : Dim) (name sym : String) : St × Except Exc UId :=
  if (lookup name s.unitByName).isSome then (s, .error .valueError)
  else if (lookup sym s.unitBySym).isSome then (s, .error .valueError)
  else if sym != "" && sym.contains ' ' then (s, .error .valueError)
  else
    let i := s.units.length
    let (s2, _) := (s.appendBase d).aliasUnit i (some name) (some sym)
    (s2, .ok i)

/-- `Unit.derive`. -/
def deriveUnit (s : St) (a : UId) (name sym : String) : St × Except Exc UId :=
  match s.aliasUnit a (some name) (some sym) with
  | (s', .ok ()) => (s', .ok a)
  | (s', .error e) => (s', .error e)

/-- `Unit.resolve_symbol`: exact symbol, then the *shortest* prefix split, then name. -/
def resolveSymbol (s : St) (text : String) : St × Except Exc UId :=
  match lookup text s.unitBySym with
  | some i => (s, .ok i)
  | none =>
    let cs := text.toList
    let rec go (i : Nat) (fuel : Nat) : Option (Pfx × UId) :=
      match fuel with
      | 0 => none
      | fuel + 1 =>
        if i ≥ cs.length then none else
        match lookup (String.ofList (cs.take i)) s.pfxBySym, lookup (String.ofList (cs.drop i)) s.unitBySym with
        | some p, some u => some (p, u)
        | _, _ => go (i + 1) fuel
    match go 1 cs.length with
    | some (p, u) => s.pmulUnit p u
    | none =>
      match lookup text s.unitByName with
      | some i => (s, .ok i)
      | none => (s, .error .keyError)

end St

end Measured
