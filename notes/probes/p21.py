import math, random
from measured import *
from measured import systems
from measured.si import *
from measured.us import PSI, Foot, Second as S2
from measured.music import Semitone
from decimal import Decimal
random.seed(2)
logs = {'bel':Bel,'dB':Decibel,'Np':Neper,'oct':Octave,'semi':Semitone, 'centiNp': Prefix(10,-2)*Neper}
refs = [1*Watt, 1*Milli*Watt, 20*Micro*Pascal, 1*Volt, 2.5*Ampere, 1*(Pico*Watt)/Meter**2, 1*PSI, 3*Meter/Second, 440*Hertz, 1*Kilo*Watt]
bad=0; n=0
for ln,lg in logs.items():
    for ref in refs:
        U = lg[ref]
        k = 2 if ref.unit.dimension in ROOT_POWER_DIMENSIONS else 1
        pv = lg.prefix.quantify()
        for _ in range(30):
            L = random.uniform(-200,200)
            try:
                q = (L*U).quantify()
                expq = float(ref.unprefixed().magnitude) * lg.base**(L*pv/k)
                back = q.level(U).magnitude
            except OverflowError as e:
                continue
            except Exception as e:
                print("EXC", ln, ref, L, type(e).__name__, e); bad+=1; continue
            n+=1
            if q.magnitude==0 or math.isinf(q.magnitude): continue
            if abs(q.magnitude/expq-1)>1e-9 or abs(back-L)>1e-6*max(1,abs(L)):
                bad+=1
                if bad<10: print("BAD", ln, ref, L, q, expq, back)
            # quantity in another unit -> level
        # reference given in a different unit
print("n",n,"bad",bad)
dBm = Decibel[1*Milli*Watt]
print((1*Watt).level(dBm), (0.001*Watt)==(0*dBm), (2*Kilo*Watt).level(Decibel[1*Watt]))
print((20*Decibel[1*Volt]).quantify(), (10*Volt).level(Decibel[1*Volt]))
print((1*Decibel[1*Watt]) == (1*Decibel[1*Watt]), (10*Decibel[1*Watt]) == (10*Watt))
try: print((0*Watt).level(dBm))
except Exception as e: print("zero:", type(e).__name__, e)
print((Decimal("100")*Watt).level(Decibel[1*Watt]))
