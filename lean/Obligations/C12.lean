/-
  Per-run obligations for C12, evaluated by the kernel on the regenerated graph:
  * the hash contract's failure on the pinned code (known finding C12-hash): 1 ft == 12 in
    compares equal in the model, but the two hash keys (magnitude, unit object) differ;
  * on the evaluated family, `==` is symmetric and `<`/`>` mirror each other for quantities in
    different convertible units.
-/
import Props.C12
import Obligations.C04

namespace Measured.Obligations
open Measured Generated

def uidOf' (name : String) : UId := (lookup name init.unitByName).getD 0

def qOf (m : Int) (name : String) : Qty Rat := { mag := .int m, unit := uidOf' name }

def evalB (m : CM Rat Bool) : Except Exc Bool := (CM.exec m famConv).1

/-- `hash_contract_fails`: equal quantities with different hash keys. -/
theorem hash_contract_fails :
    evalB (Qty.eq (qOf 1 "foot") (qOf 12 "inch")) = .ok true ∧
    C12.hashKey (qOf 1 "foot") ≠ C12.hashKey (qOf 12 "inch") := by
  decide +kernel

/-- symmetry of `==` and the `<` / `>` mirror across units, on the family -/
def cmpCase (ab : UId × UId) : Bool :=
  let a : Qty Rat := { mag := .int 3, unit := ab.1 }
  let b : Qty Rat := { mag := .int 3, unit := ab.2 }
  (evalB (Qty.eq a b) == evalB (Qty.eq b a)) &&
  (evalB (Qty.lt a b) == evalB (Qty.gt b a)) &&
  (evalB (Qty.le a b) == evalB (Qty.ge b a)) &&
  (match evalB (Qty.lt a b), evalB (Qty.eq a b), evalB (Qty.gt a b) with
   | .ok x, .ok y, .ok z => (x && !y && !z) || (!x && y && !z) || (!x && !y && z)
   | _, _, _ => false)

theorem family_comparisons_coherent : (familyQuick.take 12).all cmpCase = true := by decide +kernel

end Measured.Obligations
