from measured import *
from measured import systems, conversions
from measured.si import *
from measured.us import *
from measured.metric import Fresnel
from measured.iec import *
import traceback
def t(label, f):
    try:
        print(label, "->", f())
    except Exception as e:
        print(label, "!!", type(e).__name__, e)
# root on negative exponents
x = Hertz**-3 / Fresnel
t("x dim", lambda: (x.factors, x.dimension))
t("x.root(2)", lambda: (x.root(2).factors, x.root(2).dimension))
# C03 pow with Decimal
from decimal import Decimal
t("dec pow", lambda: (Decimal("2")*Meter)**2)
t("dec root", lambda: (Decimal("4")*Meter**2).root(2))
t("float*dec", lambda: (Decimal("4")*Meter) * 2.5)
t("rtruediv", lambda: 2/(4*Meter))
t("rtruediv unit", lambda: (2/(4*Meter)).unit)
t("unit/quantity", lambda: Meter/(4*Second))
t("radd", lambda: 1 + 4*One)
t("neq dim", lambda: (1*Meter) == (1*Second))
t("lt dim", lambda: (1*Meter) < (1*Second))
t("int pow neg", lambda: (2*Meter)**-1)
t("pow 0", lambda: (2*Meter)**0)
t("root neg", lambda: (4*Meter**2).root(-2))
t("q**float", lambda: (4*Meter**2)**0.5)
