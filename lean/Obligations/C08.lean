/-
  Per-run obligation for C08: in the current source of conversions.py every function that
  writes the conversion graph clears every memoised function that reads it, and the two
  memoised functions the model treats as transparent are exactly the memoised ones.
-/
import Props.C08
import Generated.Caches

namespace Measured.Obligations
open Measured.Generated

def cacheDisciplineOk : Bool :=
  graphMutators.all (fun m =>
    (cachedFns.filter (fun c => graphReaders.contains c)).all (fun c => m.2.contains c)) &&
  !graphMutators.isEmpty

theorem cache_discipline_ok : cacheDisciplineOk = true := by decide

/-- The memoised functions are the ones the model treats as transparent. -/
theorem cached_fns_known : cachedFns.all (fun c => ["_plan_conversion", "_find_path"].contains c) = true := by
  decide

end Measured.Obligations
