/-
  Proofs/FlatComplete.lean — the pure search is COMPLETE: if it returns the empty path, the target is
  not reachable from the start along declared edges.  (The search is a depth-first walk with one
  shared `visited` set that keeps going after a hit — it looks for the shortest of the paths it sees —
  so every unit it has visited without success is a dead end: all its neighbours were visited too and
  none of them is the target.)
-/
import Proofs.Flat
import Proofs.PlanTotalN

namespace Measured
open St

variable (R O : Table (Mag Rat)) (b : UId)

/-- `b` can be reached from `a` along edges of the ratio table -/
inductive Reaches : UId → Prop
  | here : Reaches b
  | step {a y : UId} {m : Mag Rat} : (y, m) ∈ R.row a → Reaches y → Reaches a

/-- what the search knows about the units it visited in vain: between `v` and `v'` only dead ends were
    added — every neighbour of a new unit is itself visited, and none is the target -/
def DeadEnds (v v' : List UId) : Prop :=
  (∀ x ∈ v, x ∈ v') ∧ (b ∈ v' → b ∈ v) ∧ ∀ z ∈ v', z ∉ v → ∀ y m, (y, m) ∈ R.row z → y ≠ b ∧ y ∈ v'

theorem DeadEnds.refl (v : List UId) : DeadEnds R b v v := ⟨fun _ h => h, fun h => h, fun z hz hn => absurd hz hn⟩

theorem DeadEnds.trans {v v1 v2 : List UId} (h1 : DeadEnds R b v v1) (h2 : DeadEnds R b v1 v2) : DeadEnds R b v v2 := by
  refine ⟨fun x hx => h2.1 x (h1.1 x hx), fun h => h1.2.1 (h2.2.1 h), ?_⟩
  intro z hz hn y m hy
  by_cases hz1 : z ∈ v1
  · obtain ⟨e1, e2⟩ := h1.2.2 z hz1 hn y m hy
    exact ⟨e1, h2.1 y e2⟩
  · exact h2.2.2 z hz hz1 y m hy

theorem mapHop1_ne_nil {hs hs' : List (Hop Rat)} (h : mapHop1 hs = .ok hs') (hne : hs ≠ []) : hs' ≠ [] := by
  cases hs with
  | nil => exact absurd rfl hne
  | cons a t =>
    unfold mapHop1 at h
    cases h1 : hop1 a with
    | error e => rw [h1] at h; cases h
    | ok a' =>
      rw [h1] at h
      simp only at h
      cases h2 : mapHop1 t with
      | error e => rw [h2] at h; cases h
      | ok t' =>
        rw [h2] at h
        simp only at h
        injection h with h
        subst h
        simp

/-- once a path has been found the loop never returns the empty one -/
theorem flatLoop_keeps_best {frec : UId → UId → List UId → Except Exc (List (Hop Rat) × List UId)} {a : UId} :
    ∀ (items : List (UId × Mag Rat)) (best : List (Hop Rat)) (w : List UId) (p : List (Hop Rat)) (w' : List UId),
      best ≠ [] → flatLoop frec O a b items best w = .ok (p, w') → p ≠ [] := by
  intro items
  induction items with
  | nil =>
    intro best w p w' hb hx
    unfold flatLoop at hx
    injection hx with hx
    simp only [Prod.mk.injEq] at hx
    rw [← hx.1]; exact hb
  | cons it rest ih =>
    intro best w p w' hb hx
    obtain ⟨mid, scale⟩ := it
    unfold flatLoop at hx
    by_cases hms : (mid == b) = true
    · simp only [hms, ↓reduceIte] at hx
      cases h1 : hop1 { scale := scale, offset := (O.get? a mid).getD (.int 0), unit := b } with
      | error e => rw [h1] at hx; cases hx
      | ok h' =>
        rw [h1] at hx
        simp only at hx
        injection hx with hx
        simp only [Prod.mk.injEq] at hx
        rw [← hx.1]; simp
    · simp only [hms, Bool.false_eq_true, ↓reduceIte] at hx
      cases hfr : frec mid b w with
      | error e => rw [hfr] at hx; cases hx
      | ok res =>
        obtain ⟨path, w1⟩ := res
        rw [hfr] at hx
        simp only at hx
        by_cases hpe : path.isEmpty = true
        · simp only [hpe, ↓reduceIte] at hx
          exact ih best w1 p w' hb hx
        · simp only [hpe, Bool.false_eq_true, ↓reduceIte] at hx
          cases hm1 : mapHop1 ({ scale := scale, offset := (O.get? a mid).getD (.int 0), unit := mid } :: path) with
          | error e => rw [hm1] at hx; cases hx
          | ok path2 =>
            rw [hm1] at hx
            simp only at hx
            have hp2 : path2 ≠ [] := mapHop1_ne_nil hm1 (by simp)
            by_cases hbetter : (best.isEmpty || decide (path2.length < best.length)) = true
            · simp only [hbetter, ↓reduceIte] at hx
              exact ih path2 w1 p w' hp2 hx
            · simp only [hbetter, Bool.false_eq_true, ↓reduceIte] at hx
              exact ih best w1 p w' hb hx

/-- the loop over the neighbours of `a`, when nothing is found -/
theorem flatLoop_dead {frec : UId → UId → List UId → Except Exc (List (Hop Rat) × List UId)} {a : UId}
    (hrec : ∀ mid w w', frec mid b w = .ok ([], w') → DeadEnds R b w w' ∧ mid ∈ w') :
    ∀ (items : List (UId × Mag Rat)) (w w' : List UId),
      flatLoop frec O a b items [] w = .ok ([], w') →
      DeadEnds R b w w' ∧ ∀ it ∈ items, it.1 ≠ b ∧ it.1 ∈ w' := by
  intro items
  induction items with
  | nil =>
    intro w w' hx
    unfold flatLoop at hx
    injection hx with hx
    simp only [Prod.mk.injEq, true_and] at hx
    subst hx
    exact ⟨DeadEnds.refl R b w, by simp⟩
  | cons it rest ih =>
    intro w w' hx
    obtain ⟨mid, scale⟩ := it
    unfold flatLoop at hx
    by_cases hms : (mid == b) = true
    · simp only [hms, ↓reduceIte] at hx
      cases h1 : hop1 { scale := scale, offset := (O.get? a mid).getD (.int 0), unit := b } with
      | error e => rw [h1] at hx; cases hx
      | ok h' =>
        rw [h1] at hx
        simp only at hx
        injection hx with hx
        simp at hx
    · simp only [hms, Bool.false_eq_true, ↓reduceIte] at hx
      have hmb : mid ≠ b := by simpa using hms
      cases hfr : frec mid b w with
      | error e => rw [hfr] at hx; cases hx
      | ok res =>
        obtain ⟨path, w1⟩ := res
        rw [hfr] at hx
        simp only at hx
        by_cases hpe : path.isEmpty = true
        · simp only [hpe, ↓reduceIte] at hx
          have hp : path = [] := by simpa using hpe
          subst hp
          obtain ⟨d1, hm1⟩ := hrec mid w w1 hfr
          obtain ⟨d2, hall⟩ := ih w1 w' hx
          refine ⟨d1.trans R b d2, ?_⟩
          intro it hit
          rcases List.mem_cons.1 hit with rfl | hit
          · exact ⟨hmb, d2.1 _ hm1⟩
          · exact hall it hit
        · simp only [hpe, Bool.false_eq_true, ↓reduceIte] at hx
          cases hm1 : mapHop1 ({ scale := scale, offset := (O.get? a mid).getD (.int 0), unit := mid } :: path) with
          | error e => rw [hm1] at hx; cases hx
          | ok path2 =>
            rw [hm1] at hx
            have hp2 : path2 ≠ [] := mapHop1_ne_nil hm1 (by simp)
            simp only [List.isEmpty_nil, Bool.true_or, ↓reduceIte] at hx
            exact absurd rfl (flatLoop_keeps_best O b rest path2 w1 [] w' hp2 hx)

/-- the recursive search, when nothing is found -/
theorem flatRec_dead : ∀ (fuel : Nat) (a : UId) (v v' : List UId),
    flatRec R O fuel a b v = .ok ([], v') → DeadEnds R b v v' ∧ a ∈ v' := by
  intro fuel
  induction fuel with
  | zero => intro a v v' hx; unfold flatRec at hx; cases hx
  | succ fuel ih =>
    intro a v v' hx
    unfold flatRec at hx
    by_cases hse : (a == b) = true
    · simp only [hse, ↓reduceIte] at hx
      injection hx with hx
      simp at hx
    · simp only [hse, Bool.false_eq_true, ↓reduceIte] at hx
      by_cases hvis : v.contains a = true
      · simp only [hvis, ↓reduceIte] at hx
        injection hx with hx
        simp only [Prod.mk.injEq, true_and] at hx
        subst hx
        exact ⟨DeadEnds.refl R b v, by simpa using hvis⟩
      · simp only [hvis, Bool.false_eq_true, ↓reduceIte] at hx
        have hnotin : a ∉ v := by intro h; apply hvis; simpa using h
        cases hdir : R.get? a b with
        | some scale =>
          rw [hdir] at hx
          simp only at hx
          injection hx with hx
          simp at hx
        | none =>
          rw [hdir] at hx
          simp only at hx
          obtain ⟨d, hall⟩ := flatLoop_dead R O b (fun mid w w' h => ih mid w w' h) (R.row a) (v ++ [a]) v' hx
          have hav' : a ∈ v' := d.1 a (by simp)
          have hab : a ≠ b := by simpa using hse
          refine ⟨⟨fun x hx' => d.1 x (by simp [hx']), ?_, ?_⟩, hav'⟩
          · intro hb
            have := d.2.1 hb
            simp only [List.mem_append, List.mem_singleton] at this
            rcases this with h | h
            · exact h
            · exact absurd h.symm hab
          · intro z hz hzn y m hy
            by_cases hza : z = a
            · subst hza
              exact hall (y, m) hy
            · exact d.2.2 z hz (by simp [hzn, hza]) y m hy

/-- **Completeness of the pure search**: if it returns the empty path, the target cannot be reached from
    the start along declared edges. -/
theorem flatPath_complete {a : UId} (h : flatPath R O a b = .ok []) : ¬ Reaches R b a := by
  unfold flatPath at h
  cases hr : flatRec R O (R.length + 3) a b [] with
  | error e => rw [hr] at h; cases h
  | ok r =>
    obtain ⟨p, v'⟩ := r
    rw [hr] at h
    simp only at h
    injection h with h
    have h : p = [] := h
    subst h
    obtain ⟨⟨_, hb, hcl⟩, ha⟩ := flatRec_dead R O b _ a [] v' hr
    have key : ∀ x, Reaches R b x → x ∉ v' := by
      intro x hx
      induction hx with
      | here => intro hbv; exact absurd (hb hbv) (by simp)
      | step he _ ih =>
        intro hxv
        exact ih (hcl _ hxv (by simp) _ _ he).2
    intro hreach
    exact key a hreach ha

variable {R O b}
variable {σ : UId → Rat} {lb ub : Rat}

/-- **Connected ⇒ found** (monadic search, flat dimension, approximately consistent graph): when the
    target can be reached along declared edges, `_find_path` returns a non-empty path (and leaves the
    state alone). -/
theorem findPath_connected (hb : Bnd lb ub) (hσp : ∀ k, 0 < σ k) {c : Conv Rat} (hg : GraphNear lb ub σ c) (hw : GraphWF c)
    {a t : UId} (ha : a < c.st.units.length) (ht : t < c.st.units.length)
    (hd : c.st.dimOfUnit a = c.st.dimOfUnit t) (hg1 : (c.st.dimOfUnit a).gcdAll = 1)
    (hreach : Reaches c.ratios t a) :
    ∃ p, p ≠ [] ∧ flatPath c.ratios c.offsets a t = .ok p ∧ CM.exec (findPath a t) c = (.ok p, c) := by
  obtain ⟨p, c', hx⟩ := findPath_totalN trueClosed hb hσp hg hw ha ht hd
  have hfl := findPath_flat (FlatOK.ofNear hg hw) ha ht hd hg1
  rw [hfl] at hx
  simp only [Prod.mk.injEq] at hx
  obtain ⟨hp, _⟩ := hx
  refine ⟨p, ?_, hp, by rw [hfl, hp]⟩
  intro hnil
  subst hnil
  exact flatPath_complete c.ratios c.offsets t hp hreach

/-- **Connected ⇒ converts**: single-factor units (any prefixes) over two base units of a fundamental
    dimension, the second reachable from the first along declared edges — `convert` returns a quantity:
    no ConversionNotFound, no other exception. -/
theorem convert_flat_connected (hb : Bnd lb ub) (hσp : ∀ k, 0 < σ k) {c : Conv Rat} {q : Qty Rat} {t u v : UId} {d : Dim}
    (hg : GraphNear lb ub σ c) (hwf : GraphWF c)
    (hq : q.unit < c.st.units.length) (ht : t < c.st.units.length)
    (hu : u < c.st.units.length) (hv : v < c.st.units.length)
    (hsf : (c.st.unit! q.unit).factors = [(u, 1)]) (htf : (c.st.unit! t).factors = [(v, 1)])
    (hdu : c.st.dimOfUnit u = d) (hdv : c.st.dimOfUnit v = d)
    (hw : d.weight ≤ 1) (hnn : d.isNumber = false) (hfac : d.isFactor d = true) (hnum : (d.div d).isNumber = true)
    (hneg : d.any (fun x => decide (x < 0)) = false)
    (hreach : Reaches c.ratios v u) :
    ∃ r c', CM.exec (convert q t) c = (.ok r, c') := by
  have hg1 : d.gcdAll = 1 := by
    have h1 := gcdAll_le_one hw
    have h2 := gcdAll_ne_zero hnn
    have : d.gcdAll ≠ 0 := by intro h0; apply h2; rw [h0]; rfl
    omega
  have hdq : c.st.dimOfUnit q.unit = d := by rw [dim_single hg.inv hq hu hsf]; exact hdu
  have hdt : c.st.dimOfUnit t = d := by rw [dim_single hg.inv ht hv htf]; exact hdv
  obtain ⟨ga, fa⟩ := unprefixStepN hg hq
  have wa := hwf.frameN hg fa
  obtain ⟨gb, fb⟩ := unprefixStepN ga (fa.lt ht)
  have wb := wa.frameN ga fb
  have fab := fa.trans fb
  -- the two searches, both pure
  have hR : ({ c with st := ((c.st.unprefixedUnit q.unit).1.unprefixedUnit t).1 } : Conv Rat).ratios = c.ratios := rfl
  obtain ⟨p0, c0, hx0⟩ := findPath_totalN trueClosed hb hσp gb wb (fab.lt hq) (fab.lt ht)
    (by rw [fab.ext.dimOfUnit hq, fab.ext.dimOfUnit ht, hdq, hdt])
  have hfl0 := findPath_flat (FlatOK.ofNear gb wb) (fab.lt hq) (fab.lt ht)
    (by rw [fab.ext.dimOfUnit hq, fab.ext.dimOfUnit ht, hdq, hdt]) (by rw [fab.ext.dimOfUnit hq, hdq]; exact hg1)
  have hc0 : c0 = { c with st := ((c.st.unprefixedUnit q.unit).1.unprefixedUnit t).1 } := by
    rw [hfl0] at hx0; simp only [Prod.mk.injEq] at hx0; exact hx0.2.symm
  subst hc0
  obtain ⟨path, hpne, _, hx1⟩ := findPath_connected hb hσp gb wb (fab.lt hu) (fab.lt hv)
    (by rw [fab.ext.dimOfUnit hu, fab.ext.dimOfUnit hv, hdu, hdv]) (by rw [fab.ext.dimOfUnit hu, hdu]; exact hg1)
    (by rw [hR]; exact hreach)
  -- non-zero scales
  obtain ⟨_, _, _, hps0, _, _⟩ := findPath_near (s₀ := c.st) trueClosed hb hσp gb wb fab.ext (fab.lt hq) (fab.lt ht) hx0
  obtain ⟨_, _, _, hps1, _, _⟩ := findPath_near (s₀ := c.st) trueClosed hb hσp gb wb fab.ext (fab.lt hu) (fab.lt hv) hx1
  have hpt : ((c.st.unprefixedUnit q.unit).1.unit! t).pfx = (c.st.unit! t).pfx := fa.pfx ht
  have hptpos : Pfx.val (c.st.unit! t).pfx ≠ 0 := ne_of_gt (Pfx.val_pos (canon_pfx hg.canon ht))
  obtain ⟨head, hhead⟩ := recip_ok (m := (Pfx.value ((c.st.unprefixedUnit q.unit).1.unit! t).pfx : Mag Rat))
    (by rw [Pfx.value_val, hpt]; exact hptpos)
  -- the plan, in either case of the shape [path step, head step]
  have hplan : ∃ (pth : List (Hop Rat)) (c3 : Conv Rat), (∀ h ∈ pth, h.scale.val ≠ 0) ∧
      CM.exec (planConversion q.unit t) { c with st := (c.st.unprefixedUnit q.unit).1 } =
        (.ok [ { ratio := .int 1, path := pth, exp := 1 },
               { ratio := head, path := [{ scale := .int 1, offset := .int 0, unit := ((c.st.unprefixedUnit q.unit).1).one }], exp := 1 } ], c3) := by
    by_cases hp0 : p0 = []
    · subst hp0
      have hsf' : (((c.st.unprefixedUnit q.unit).1.unprefixedUnit t).1.unit! q.unit).factors = [(u, 1)] := by
        have := (fab.ext.same q.unit hq).2.1; rw [← hsf]; exact this
      have htf' : (((c.st.unprefixedUnit q.unit).1.unprefixedUnit t).1.unit! t).factors = [(v, 1)] := by
        have := (fab.ext.same t ht).2.1; rw [← htf]; exact this
      have hdu' : ((c.st.unprefixedUnit q.unit).1.unprefixedUnit t).1.dimOfUnit u = d := by
        rw [← hdu]; exact fab.ext.dimOfUnit hu
      have hdv' : ((c.st.unprefixedUnit q.unit).1.unprefixedUnit t).1.dimOfUnit v = d := by
        rw [← hdv]; exact fab.ext.dimOfUnit hv
      exact ⟨path, _, pathScale_ne_zero_all (ne_of_gt (hps1 hpne).1),
        planConversion_single (c := { c with st := (c.st.unprefixedUnit q.unit).1 })
          hsf' htf' hdu' hdv' hw hfac hnum hneg hhead hx0 hx1 hpne⟩
    · exact ⟨p0, _, pathScale_ne_zero_all (ne_of_gt (hps0 hp0).1),
        planConversion_direct_fwd (c := { c with st := (c.st.unprefixedUnit q.unit).1 }) hhead hx0 hp0⟩
  obtain ⟨pth, c3, hnz, hpc⟩ := hplan
  have hdim : (c.st.dimOfUnit q.unit != c.st.dimOfUnit t) = false := by rw [hdq, hdt]; simp
  unfold convert
  rw [exec_bind, exec_getSt]
  simp only [hdim, Bool.false_eq_true, ↓reduceIte]
  rw [exec_bind, exec_unprefixedQty]
  simp only
  rw [exec_bind, hpc]
  simp only
  obtain ⟨m, hm⟩ := applyPlan_ok
    [ { ratio := .int 1, path := pth, exp := 1 },
      { ratio := head, path := [{ scale := .int 1, offset := .int 0, unit := ((c.st.unprefixedUnit q.unit).1).one }], exp := 1 } ]
    (Mag.mul (Pfx.value (c.st.unit! q.unit).pfx) q.mag) (by
      intro p hp h hh
      simp only [List.mem_cons, List.mem_nil_iff, or_false] at hp
      rcases hp with rfl | rfl
      · exact hnz h hh
      · simp only [List.mem_singleton] at hh
        subst hh
        simp [val_int])
  rw [exec_bind, exec_liftE, hm]
  simp only [exec_pure]
  exact ⟨_, _, rfl⟩

/-- `_inline_paths` when every step is trivial or connects two connected units of a flat dimension: a plan,
    non-zero scales, state untouched -/
theorem inlinePaths_connected (hb : Bnd lb ub) (hσp : ∀ k, 0 < σ k) : ∀ (plan : List (Rough Rat)) (c : Conv Rat),
    GraphNear lb ub σ c → GraphWF c →
    (∀ r ∈ plan, r.start = r.stop ∨ (r.start < c.st.units.length ∧ r.stop < c.st.units.length ∧
      c.st.dimOfUnit r.start = c.st.dimOfUnit r.stop ∧ (c.st.dimOfUnit r.start).gcdAll = 1 ∧
      Reaches c.ratios r.stop r.start)) →
    ∃ P, CM.exec (inlinePaths plan) c = (.ok P, c) ∧ ∀ p ∈ P, ∀ h ∈ p.path, h.scale.val ≠ 0 := by
  intro plan
  induction plan with
  | nil => intro c _ _ _; exact ⟨[], rfl, by simp⟩
  | cons r rest ih =>
    intro c hg hw hv
    obtain ⟨Ps, hrest, hnz⟩ := ih c hg hw (fun x hx => hv x (List.mem_cons_of_mem _ hx))
    have hrest' : CM.exec (List.mapM (fun r => do
        let path ← findPath r.start r.stop
        if path.isEmpty = true then throw Exc.notFound
        pure ({ ratio := r.ratio, path := path, exp := r.exp } : PlanStep Rat)) rest) c = (.ok Ps, c) := by
      unfold inlinePaths at hrest; exact hrest
    have hstep : ∃ path, path ≠ [] ∧ CM.exec (findPath r.start r.stop) c = (.ok path, c) ∧ ∀ h ∈ path, h.scale.val ≠ 0 := by
      rcases hv r List.mem_cons_self with heq | ⟨h1, h2, h3, h4, h5⟩
      · refine ⟨[{ scale := .int 1, offset := .int 0, unit := r.stop }], by simp, ?_, ?_⟩
        · rw [heq]; exact exec_findPath_self c r.stop
        · intro h hh; simp only [List.mem_singleton] at hh; subst hh; simp [val_int]
      · obtain ⟨p, hpne, _, hx⟩ := findPath_connected hb hσp hg hw h1 h2 h3 h4 h5
        obtain ⟨_, _, _, hps, _, _⟩ := findPath_near (s₀ := c.st) trueClosed hb hσp hg hw (Ext.refl _) h1 h2 hx
        exact ⟨p, hpne, hx, pathScale_ne_zero_all (ne_of_gt (hps hpne).1)⟩
    obtain ⟨path, hpne, hx, hsc⟩ := hstep
    have hpe : path.isEmpty = false := by
      cases path with
      | nil => exact absurd rfl hpne
      | cons _ _ => rfl
    refine ⟨{ ratio := r.ratio, path := path, exp := r.exp } :: Ps, ?_, ?_⟩
    · unfold inlinePaths
      simp only [List.mapM_cons]
      rw [exec_bind, exec_bind, hx]
      simp only [hpe, Bool.false_eq_true, ↓reduceIte, exec_pure]
      rw [exec_bind, hrest']
      simp only [exec_pure]
    · intro p hp
      rcases List.mem_cons.1 hp with rfl | hp
      · exact hsc
      · exact hnz p hp

/-- **Connected ⇒ converts, through the factor planner**: simple units whose paired base units are connected
    along declared edges convert — `convert` returns a quantity. -/
theorem convert_simple_connected_aux (hb : Bnd lb ub) (hσp : ∀ k, 0 < σ k) {K : List Dim} {plan : List (Rough Rat)} {c : Conv Rat} {q : Qty Rat} {t : UId}
    (hg : GraphNear lb ub σ c) (hwf : GraphWF c)
    (hq : q.unit < c.st.units.length) (ht : t < c.st.units.length)
    (hsp : SimplePair σ K c q.unit t plan)
    (hdqt0 : c.st.dimOfUnit q.unit = c.st.dimOfUnit t)
    (hdims : ∀ r ∈ plan, c.st.dimOfUnit r.start = c.st.dimOfUnit r.stop ∧ (c.st.dimOfUnit r.start).gcdAll = 1 ∧
      Reaches c.ratios r.stop r.start) :
    ∃ res c', CM.exec (convert q t) c = (res, c') ∧ ((∃ r, res = .ok r) ∨ False) := by
  have hdim : ¬ (c.st.dimOfUnit q.unit != c.st.dimOfUnit t) = true := by rw [hdqt0]; simp
  · have hdqt : c.st.dimOfUnit q.unit = c.st.dimOfUnit t := by simpa using hdim
    have hσ : ∀ k, σ k ≠ 0 := fun k => ne_of_gt (hσp k)
    obtain ⟨ga, fa⟩ := unprefixStepN hg hq
    have wa := hwf.frameN hg fa
    obtain ⟨gb, fb⟩ := unprefixStepN ga (fa.lt ht)
    have wb := wa.frameN ga fb
    have fab := fa.trans fb
    have hdb : ({ c with st := ((c.st.unprefixedUnit q.unit).1.unprefixedUnit t).1 } : Conv Rat).st.dimOfUnit q.unit =
        ({ c with st := ((c.st.unprefixedUnit q.unit).1.unprefixedUnit t).1 } : Conv Rat).st.dimOfUnit t := by
      rw [fab.ext.dimOfUnit hq, fab.ext.dimOfUnit ht]; exact hdqt
    obtain ⟨p0, c2, hfp0⟩ := findPath_totalN trueClosed hb hσp gb wb (fab.lt hq) (fab.lt ht) hdb
    obtain ⟨g2, w2, f2, hps0, _, _⟩ := findPath_near (s₀ := c.st) trueClosed hb hσp gb wb fab.ext (fab.lt hq) (fab.lt ht) hfp0
    have fab2 := fab.trans f2
    have hpt : ((c.st.unprefixedUnit q.unit).1.unit! t).pfx = (c.st.unit! t).pfx := fa.pfx ht
    have hptpos : Pfx.val (c.st.unit! t).pfx ≠ 0 := ne_of_gt (Pfx.val_pos (canon_pfx hg.canon ht))
    obtain ⟨head, hhead⟩ := recip_ok (m := (Pfx.value ((c.st.unprefixedUnit q.unit).1.unit! t).pfx : Mag Rat))
      (by rw [Pfx.value_val, hpt]; exact hptpos)
    -- the common frame: `convert` up to the plan
    have hconv : ∀ (P : Plan Rat) (c3 : Conv Rat) (res : Except Exc (Plan Rat)),
        CM.exec (planConversion q.unit t) { c with st := (c.st.unprefixedUnit q.unit).1 } = (res, c3) →
        (res = .ok P → ∀ p ∈ P, ∀ h ∈ p.path, h.scale.val ≠ 0) →
        (res = .ok P ∨ False) →
        ∃ res' c', CM.exec (convert q t) c = (res', c') ∧ ((∃ r, res' = .ok r) ∨ False) := by
      intro P c3 res hpc hnz hres
      unfold convert
      rw [exec_bind, exec_getSt]
      simp only [hdim, Bool.false_eq_true, ↓reduceIte]
      rw [exec_bind, exec_unprefixedQty]
      simp only
      rw [exec_bind, hpc]
      rcases hres with rfl | hf
      · simp only
        obtain ⟨m, hm⟩ := applyPlan_ok P (Mag.mul (Pfx.value (c.st.unit! q.unit).pfx) q.mag) (hnz rfl)
        rw [exec_bind, exec_liftE, hm]
        simp only [exec_pure]
        exact ⟨_, _, rfl, Or.inl ⟨_, rfl⟩⟩
      · exact absurd hf id
    by_cases hp0 : p0 = []
    · subst hp0
      -- through the factor planner
      have hfacq : (((c.st.unprefixedUnit q.unit).1.unprefixedUnit t).1.unit! q.unit).factors = (c.st.unit! q.unit).factors :=
        (fab.ext.same q.unit hq).2.1
      have hfact : (((c.st.unprefixedUnit q.unit).1.unprefixedUnit t).1.unit! t).factors = (c.st.unit! t).factors :=
        (fab.ext.same t ht).2.1
      have hFOK : ∀ f, f.1 < c.st.units.length → FactorOK K c.st f →
          FactorOK K ((c.st.unprefixedUnit q.unit).1.unprefixedUnit t).1 f := by
        intro f hf hok
        unfold FactorOK at hok ⊢
        rw [fab.ext.dimOfUnit hf]; exact hok
      have hfs' : ∀ f ∈ (((c.st.unprefixedUnit q.unit).1.unprefixedUnit t).1.unit! q.unit).factors,
          FactorOK K ((c.st.unprefixedUnit q.unit).1.unprefixedUnit t).1 f := by
        rw [hfacq]; intro f hf; exact hFOK f (hsp.srcOK f hf).2.1 (hsp.srcOK f hf).1
      have hft' : ∀ f ∈ (((c.st.unprefixedUnit q.unit).1.unprefixedUnit t).1.unit! t).factors,
          FactorOK K ((c.st.unprefixedUnit q.unit).1.unprefixedUnit t).1 f := by
        rw [hfact]; intro f hf; exact hFOK f (hsp.dstOK f hf).2.1 (hsp.dstOK f hf).1
      have hsq : splat ((c.st.unprefixedUnit q.unit).1.unprefixedUnit t).1 q.unit = splat c.st q.unit :=
        splat_ext fab.ext hq (fun f hf => (hsp.srcOK f hf).2.1)
      have hst : splat ((c.st.unprefixedUnit q.unit).1.unprefixedUnit t).1 t = splat c.st t :=
        splat_ext fab.ext ht (fun f hf => (hsp.dstOK f hf).2.1)
      obtain ⟨hpc, _, _, _⟩ := planConversion_simple hsp.keys hsp.light (fun _ => (1 : Rat)) (fun _ => one_ne_zero)
        (c := { c with st := (c.st.unprefixedUnit q.unit).1 }) hfs' hft' hhead hfp0 (by rw [hsq, hst]; exact hsp.paired)
      have hone2 : c.st.one < c2.st.units.length := fab2.lt hg.inv.1.oneLt
      have hone' : ((c.st.unprefixedUnit q.unit).1).one = c.st.one := fa.ext.one
      have hvalid : ∀ x ∈ plan ++ [Rough.mk head ((c.st.unprefixedUnit q.unit).1).one ((c.st.unprefixedUnit q.unit).1).one 1],
          x.start = x.stop ∨ (x.start < c2.st.units.length ∧ x.stop < c2.st.units.length ∧
            c2.st.dimOfUnit x.start = c2.st.dimOfUnit x.stop ∧ (c2.st.dimOfUnit x.start).gcdAll = 1 ∧
            Reaches c2.ratios x.stop x.start) := by
        intro x hx
        rcases List.mem_append.1 hx with hx | hx
        · rcases matchSpec_units _ _ _ _ _ _ _ hsp.paired x hx with h0 | ⟨h1, h2⟩
          · cases h0
          · obtain ⟨f1, hf1, e1⟩ := splat_units c.st q.unit _ h1
            obtain ⟨f2', hf2, e2⟩ := splat_units c.st t _ h2
            have v1 : x.start < c.st.units.length := by rw [← e1]; exact (hsp.srcOK f1 hf1).2.1
            have v2 : x.stop < c.st.units.length := by rw [← e2]; exact (hsp.dstOK f2' hf2).2.1
            obtain ⟨d1, d2, d3⟩ := hdims x hx
            exact Or.inr ⟨fab2.lt v1, fab2.lt v2, by rw [fab2.ext.dimOfUnit v1, fab2.ext.dimOfUnit v2]; exact d1,
              by rw [fab2.ext.dimOfUnit v1]; exact d2, by rw [fab2.ratios]; exact d3⟩
        · simp only [List.mem_singleton] at hx
          subst hx
          exact Or.inl rfl
      obtain ⟨P, hx, hnz⟩ := inlinePaths_connected hb hσp _ c2 g2 w2 hvalid
      rw [← hpc] at hx
      exact hconv P c2 _ hx (fun _ => hnz) (Or.inl rfl)
    · -- the directly found path
      have hpl := planConversion_direct_fwd (c := { c with st := (c.st.unprefixedUnit q.unit).1 }) hhead hfp0 hp0
      refine hconv _ c2 _ hpl ?_ (Or.inl rfl)
      intro _ p hp h hh
      simp only [List.mem_cons, List.mem_nil_iff, or_false] at hp
      rcases hp with rfl | rfl
      · simp only at hh
        exact pathScale_ne_zero_all (ne_of_gt (hps0 hp0).1) h hh
      · simp only [List.mem_singleton] at hh
        subst hh
        simp [val_int]

/-- **Connected ⇒ converts, through the factor planner**: simple units (products of powers of base units of
    fundamental dimensions, any prefixes, pairing up key by key) whose paired base units are connected along
    declared edges convert — `convert` returns a quantity, it raises nothing. -/
theorem convert_simple_connected (hb : Bnd lb ub) (hσp : ∀ k, 0 < σ k) {K : List Dim} {plan : List (Rough Rat)} {c : Conv Rat}
    {q : Qty Rat} {t : UId} (hg : GraphNear lb ub σ c) (hwf : GraphWF c)
    (hq : q.unit < c.st.units.length) (ht : t < c.st.units.length)
    (hsp : SimplePair σ K c q.unit t plan)
    (hdqt : c.st.dimOfUnit q.unit = c.st.dimOfUnit t)
    (hdims : ∀ r ∈ plan, c.st.dimOfUnit r.start = c.st.dimOfUnit r.stop ∧ (c.st.dimOfUnit r.start).gcdAll = 1 ∧
      Reaches c.ratios r.stop r.start) :
    ∃ r c', CM.exec (convert q t) c = (.ok r, c') := by
  obtain ⟨res, c', hx, hres⟩ := convert_simple_connected_aux hb hσp hg hwf hq ht hsp hdqt hdims
  rcases hres with ⟨r, rfl⟩ | hf
  · exact ⟨r, c', hx⟩
  · exact absurd hf id

end Measured
