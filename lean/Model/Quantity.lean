/-
  Model/Quantity.lean — class Quantity of /repo/src/measured/__init__.py with Python's
  operator dispatch made explicit.  Each dunder returns `Option _` where `none` is
  `NotImplemented`; `binop`/`compare` in Model/Dispatch.lean implement "try left, then
  reflected, then TypeError / identity fallback", `functools.total_ordering` included.
-/
import Model.Convert

namespace Measured

section
variable {α : Type} [Add α] [Sub α] [Mul α] [Div α] [Neg α] [OfNat α 0] [OfNat α 1] [FloatLike α]

namespace Qty

/-- `Quantity.__add__` (other is a Quantity). -/
def add (a b : Qty α) : CM α (Qty α) := do
  let b' ← convert b a.unit
  pure { mag := Mag.add a.mag b'.mag, unit := a.unit }

/-- `Quantity.__sub__`. -/
def sub (a b : Qty α) : CM α (Qty α) := do
  let b' ← convert b a.unit
  pure { mag := Mag.sub a.mag b'.mag, unit := a.unit }

/-- `Quantity.__mul__(Quantity)`. -/
def mul (a b : Qty α) : CM α (Qty α) := do
  let u ← liftStE (fun s => s.mulUnit a.unit b.unit)
  pure { mag := Mag.mul a.mag b.mag, unit := u }

/-- `Quantity.__mul__(Unit)`. -/
def mulUnit (a : Qty α) (u : UId) : CM α (Qty α) := do
  let u' ← liftStE (fun s => s.mulUnit a.unit u)
  pure { mag := a.mag, unit := u' }

/-- `Quantity.__mul__(Numeric)`. -/
def mulNum (a : Qty α) (m : Mag α) : Qty α := { mag := Mag.mul a.mag m, unit := a.unit }

/-- `Quantity.__truediv__(Quantity)`: `_div` first, then the unit quotient. -/
def div (a b : Qty α) : CM α (Qty α) := do
  let m ← liftE (Mag.div a.mag b.mag)
  let u ← liftStE (fun s => s.divUnit a.unit b.unit)
  pure { mag := m, unit := u }

def divUnit (a : Qty α) (u : UId) : CM α (Qty α) := do
  let u' ← liftStE (fun s => s.divUnit a.unit u)
  pure { mag := a.mag, unit := u' }

def divNum (a : Qty α) (m : Mag α) : CM α (Qty α) := do
  let r ← liftE (Mag.div a.mag m)
  pure { mag := r, unit := a.unit }

/-- `Quantity.__rtruediv__(Numeric)` — as written: the unit is kept, not inverted. -/
def rdivNum (a : Qty α) (m : Mag α) : CM α (Qty α) := do
  let r ← liftE (Mag.div m a.mag)
  pure { mag := r, unit := a.unit }

/-- `Quantity.__pow__`: `Quantity(self.magnitude**power, self.unit**power)`. -/
def pow (a : Qty α) (n : Int) : CM α (Qty α) := do
  let m ← liftE (a.mag.powInt n)
  let u ← liftSt (fun s => s.powUnit a.unit n)
  pure { mag := m, unit := u }

/-- `_pow(x, 1 / degree)` for the magnitude of `Quantity.root`.  A negative base would be a
    complex number in Python; the model declines. -/
def rootMag (m : Mag α) (degree : Int) : Except Exc (Mag α) :=
  if m.lt (.int 0) then .error .unmodelled
  else if m.isZero && degree < 0 then .error .zeroDivision
  else
    let ex : α := (1 : α) / FloatLike.ofInt degree
    match m with
    | .dec r => .ok (.dec (FloatLike.toRat (FloatLike.rpow (FloatLike.ofRat r : α) ex)))
    | m => .ok (.flt (FloatLike.rpow m.toFlt ex))

/-- `Quantity.root`. -/
def root (a : Qty α) (degree : Int) : CM α (Qty α) := do
  if degree == 0 then
    let s ← getSt
    return { mag := .int 1, unit := s.one }
  let m ← liftE (rootMag a.mag degree)
  let u ← liftStE (fun s => s.rootUnit a.unit degree)
  pure { mag := m, unit := u }

def neg (a : Qty α) : Qty α := { a with mag := a.mag.neg }
def abs (a : Qty α) : Qty α := { a with mag := a.mag.abs }

/-- `Quantity.__eq__(Quantity)`: `none` is `NotImplemented`. -/
def eqCore (a b : Qty α) : CM α (Option Bool) := do
  let s ← getSt
  if s.dimOfUnit a.unit != s.dimOfUnit b.unit then return none
  let this ← unprefixedQty a
  let other ← unprefixedQty b
  if this.unit == other.unit then return some (Mag.beq this.mag other.mag)
  tryCatch (do
      let c ← convert this other.unit
      -- `c == other` re-enters __eq__ with equal units
      let c' ← unprefixedQty c
      let o' ← unprefixedQty other
      pure (some (Mag.beq c'.mag o'.mag)))
    (fun e => if e == .notFound then pure none else throw e)

/-- `Quantity.__lt__(Quantity)`. -/
def ltCore (a b : Qty α) : CM α (Option Bool) := do
  let s ← getSt
  if s.dimOfUnit a.unit != s.dimOfUnit b.unit then return none
  let this ← unprefixedQty a
  let other ← unprefixedQty b
  if this.unit == other.unit then return some (Mag.lt this.mag other.mag)
  tryCatch (do
      let c ← convert this other.unit
      let c' ← unprefixedQty c
      let o' ← unprefixedQty other
      pure (some (Mag.lt c'.mag o'.mag)))
    (fun e => if e == .notFound then pure none else throw e)

/-- `a == b` on two quantities: left, then reflected, then identity (distinct objects). -/
def eq (a b : Qty α) : CM α Bool := do
  match ← eqCore a b with
  | some r => pure r
  | none =>
    match ← eqCore b a with
    | some r => pure r
    | none => pure false

def ne (a b : Qty α) : CM α Bool := do
  -- default __ne__ inverts __eq__ unless NotImplemented; then reflected; then identity
  match ← eqCore a b with
  | some r => pure (!r)
  | none =>
    match ← eqCore b a with
    | some r => pure (!r)
    | none => pure true

/-- total_ordering's `__gt__`: `not (self < other) and self != other`. -/
def gtCore (a b : Qty α) : CM α (Option Bool) := do
  match ← ltCore a b with
  | none => pure none
  | some r => if r then pure (some false) else do let n ← ne a b; pure (some n)

/-- total_ordering's `__le__`: `(self < other) or self == other`. -/
def leCore (a b : Qty α) : CM α (Option Bool) := do
  match ← ltCore a b with
  | none => pure none
  | some r => if r then pure (some true) else do let e ← eq a b; pure (some e)

/-- total_ordering's `__ge__`: `not (self < other)`. -/
def geCore (a b : Qty α) : CM α (Option Bool) := do
  match ← ltCore a b with
  | none => pure none
  | some r => pure (some (!r))

/-- `a < b`: `a.__lt__(b)`, reflected `b.__gt__(a)`, else TypeError. -/
def lt (a b : Qty α) : CM α Bool := do
  match ← ltCore a b with
  | some r => pure r
  | none => match ← gtCore b a with
    | some r => pure r
    | none => throw .typeError

def gt (a b : Qty α) : CM α Bool := do
  match ← gtCore a b with
  | some r => pure r
  | none => match ← ltCore b a with
    | some r => pure r
    | none => throw .typeError

def le (a b : Qty α) : CM α Bool := do
  match ← leCore a b with
  | some r => pure r
  | none => match ← geCore b a with
    | some r => pure r
    | none => throw .typeError

def ge (a b : Qty α) : CM α Bool := do
  match ← geCore a b with
  | some r => pure r
  | none => match ← leCore b a with
    | some r => pure r
    | none => throw .typeError

end Qty

end

end Measured
