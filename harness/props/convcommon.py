"""Shared by C04-C07: the conversion case space, the exact-size oracle and the
classification of a case into the planner's catalogued root-cause classes
(DESIGN.md Appendix C; /verif/known_findings.json)."""
import collections
import struct
from decimal import Decimal
from fractions import Fraction as F

from measured import Number, One, Prefix, Quantity, Unit, conversions

from sizes import Sizes, degree

from .common import BaseContext


def weight(d):
    return sum(abs(e) for e in d.exponents)


def classify(start, end):
    """First matching root-cause class of the pinned planner, or None for the clean fragment
    (every factor on both sides is a base unit of a fundamental dimension)."""
    labels = set()
    for u in (start, end):
        for f, e in u.factors.items():
            if f is One:
                continue
            d = f.dimension
            if d is Number:
                labels.add("K3-dimensionless-denominator" if e < 0 else "Ky-dimensionless")
                continue
            neg = any(x < 0 for x in d.exponents)
            pos = any(x > 0 for x in d.exponents)
            if neg and not pos:
                labels.add("K4-inverse-dimension-base")
            elif weight(d) > 1:
                if e < 0:
                    labels.add("K1-inverse-derived")
                elif neg and pos:
                    labels.add("K5-mixed-sign-derived")
                else:
                    labels.add("Kx-derived")
    for k in ("K3-dimensionless-denominator", "K4-inverse-dimension-base", "K1-inverse-derived",
              "K5-mixed-sign-derived", "Kx-derived", "Ky-dimensionless"):
        if k in labels:
            return k
    # every factor is a base unit of a fundamental dimension.  The planner pairs factors
    # dimension by dimension; when the two sides do not have the same number of factors per
    # (dimension, sign) - one side needs internal cancellation, e.g. C**-1 * m**2 -> C - factors
    # are left unmatched.
    def shape(u):
        c = collections.Counter()
        for f, e in u.factors.items():
            if f is One:
                continue
            c[(f.dimension, e > 0)] += abs(e)
        return c
    if shape(start) != shape(end):
        return "K7-regrouping"
    # same shape, but one dimension occurs in numerator AND denominator of a unit (ft^3/m^2, A^3/C^2 with
    # A, C both lengths): the planner pairs numerator factors with numerator factors by position; when
    # the pair needs a multi-hop path the partially reduced plan no longer lines up -> AssertionError
    for u in (start, end):
        signs = collections.defaultdict(set)
        for f, e in u.factors.items():
            if f is not One:
                signs[f.dimension].add(e > 0)
        if any(len(v) == 2 for v in signs.values()):
            return "K8-same-dimension-both-signs"
    # two or more distinct factors of one dimension on the same side of the fraction (m*ft -> yd*in): the
    # planner pairs them in the order of the units' factor mappings, and that order is fixed by whichever
    # expression first interned the unit (m*ft or ft*m) - with the "wrong" order no path is found
    for u in (start, end):
        count = collections.Counter()
        for f, e in u.factors.items():
            if f is not One:
                count[(f.dimension, e > 0)] += 1
        if any(v >= 2 for v in count.values()):
            return "K9-ambiguous-pairing"
    return None


def ftok(x):
    return "f:%016x" % struct.unpack("<Q", struct.pack("<d", float(x)))[0]


class ConvContext(BaseContext):
    def __init__(self, sess, rng):
        super().__init__(sess, rng)
        self.nq = 0
        self.sizes = Sizes()
        self.refresh_units()
        self.extra["class_histogram"] = collections.Counter()
        self.extra["outcome_histogram"] = collections.Counter()

    def refresh_units(self):
        S = self.sizes
        named = {}
        for u in Unit._by_name.values():
            if u is One or not S.known(u) or S.has_offset(u):
                continue
            if u.prefix.base not in (0, 10):
                continue
            named[id(u)] = u
        self.named = sorted(named.values(), key=lambda u: self.sess.uid(u))
        self.bydim = collections.defaultdict(list)
        for u in self.named:
            self.bydim[u.dimension].append(u)
        self.clean_named = [u for u in self.named if classify(u, u) is None]

    def resolve_sizes(self):
        self.sizes = Sizes()
        self.refresh_units()

    # ---- case generation ---------------------------------------------------------------
    def gen_units(self, clean_bias=0.35):
        """(source factor list, target factor list) of equal dimension: each source factor is
        replaced by a unit of the same dimension; optionally one side is regrouped."""
        rng = self.rng
        pool = self.clean_named if rng.random() < clean_bias else self.named
        n = rng.choice([1, 1, 2, 2, 3])
        src, dst = [], []
        for _ in range(n):
            u = rng.choice(pool)
            e = rng.choice([-3, -2, -1, -1, 1, 1, 1, 2, 3])
            alts = [v for v in self.bydim[u.dimension] if (v in pool or pool is self.named)]
            v = rng.choice(alts)
            src.append((u, e))
            dst.append((v, e))
        return src, dst

    def si_prefix(self):
        return self.rng.choice(self.si_prefixes)

    def build(self, factors, prefix):
        """generator: emits the U ops that build prod(u**e) with `prefix`; returns ordinal."""
        cur = None
        for u, e in factors:
            res = yield "U\tpow\tu%d\t%d" % (self.sess.uid(u), e)
            if not res.startswith("ok\tu"):
                return None
            x = int(res.split("\t")[1][1:])
            if cur is None:
                cur = x
            else:
                res = yield "U\tmul\tu%d\tu%d" % (cur, x)
                if not res.startswith("ok\tu"):
                    return None
                cur = int(res.split("\t")[1][1:])
        if prefix is not None:
            res = yield "U\tpmul\tp%d:%d\tu%d" % (prefix.base, prefix.exponent, cur)
            if not res.startswith("ok\tu"):
                return None
            cur = int(res.split("\t")[1][1:])
        return cur

    def magnitude(self):
        r = self.rng.random()
        if r < 0.35:
            return "i:%d" % self.rng.choice([1, 2, 3, -4, 7, 10, 0, 250])
        if r < 0.8:
            return ftok(self.rng.choice([1.0, 2.5, -0.75, 1e-3, 12345.678, self.rng.uniform(-100, 100)]))
        return "d:%d/%d" % (self.rng.randint(-9999, 9999), self.rng.choice([1, 2, 10, 100, 1000]))

    # ---- oracle ------------------------------------------------------------------------
    def check_conversion(self, q, target, res, result):
        """Returns a failure dict or None for one `q.in_unit(target)` outcome."""
        S = self.sizes
        cls = classify(q.unit, target)
        self.extra["class_histogram"][str(cls)] += 1
        ratio = S.ratio(q.unit, target)
        if q.unit.dimension is not target.dimension or ratio is None:
            return None
        if res.startswith("ERR"):
            err = res[4:]
            self.extra["outcome_histogram"][err] += 1
            if err == "ConversionNotFound":
                return None          # allowed by C04 (no value returned); C09 covers connectivity
            return {"kind": "conversion-raises", "error": err, "class": cls,
                    "from": str(q.unit), "to": str(target)}
        want = F(q.magnitude) * ratio
        if isinstance(result.magnitude, float) and (result.magnitude != result.magnitude or result.magnitude in (float("inf"), float("-inf"))):
            # the exact result is beyond the float range (or an intermediate product was): a float-range effect
            # the exact model cannot exhibit and the property does not speak about
            self.extra["outcome_histogram"]["float-overflow"] += 1
            if abs(want) < F(10) ** 300 and not isinstance(q.magnitude, float):
                return {"kind": "conversion-wrong", "class": cls, "from": str(q.unit), "to": str(target),
                        "magnitude": str(q.magnitude), "got": str(result.magnitude), "want": float(want)}
            return None
        got = F(result.magnitude)
        tol = F(1, 10**5) * (degree(q.unit) + degree(target))
        if result.unit is not target:
            return {"kind": "conversion-wrong-unit", "class": cls, "from": str(q.unit), "to": str(target)}
        if want == 0:
            ok = abs(got) <= F(1, 10**300)
        else:
            ok = abs(got - want) <= tol * abs(want)
        self.extra["outcome_histogram"]["ok" if ok else "WRONG"] += 1
        if not ok:
            return {"kind": "conversion-wrong", "class": cls, "from": str(q.unit), "to": str(target),
                    "magnitude": str(q.magnitude), "got": float(got), "want": float(want)}
        return None
