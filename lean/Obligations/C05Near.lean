/-
  Per-run obligations: conversions between SIMPLE units (products of powers of base units, any
  prefixes) on the SHIPPED definitions, through the factor planner, are right up to the accumulated
  errors of the edges the plan walks (Proofs/PlanNear.lean).  Bounds are the symmetric pair
  [999/1000, 1000/999] ⊇ [1 − 10⁻³, 1 + 10⁻³] of Obligations/C04Near.
-/
import Proofs.PlanNear
import Obligations.C04Near
import Obligations.C05Direct

namespace Measured.Obligations.NearShipped
open Measured Measured.Obligations Measured.Obligations.Direct Generated St

def lbQ : Rat := 999 / 1000
def ubQ : Rat := 1000 / 999

theorem bndQ : Bnd lbQ ubQ := ⟨by norm_num [lbQ], by norm_num [lbQ], by norm_num [ubQ]⟩
theorem symQ : lbQ * ubQ = 1 := by norm_num [lbQ, ubQ]

theorem shipped_graphNearQ : GraphNear lbQ ubQ σS shipped :=
  shipped_graphNear.weaken σS_pos (by norm_num [lbQ]) (by norm_num [lbQ, lbS]) (by norm_num [ubS]) (by norm_num [ubQ, ubS])

theorem zt_number (n : Nat) : Zt (Dim.number n) := by
  unfold Zt Dim.number
  simp [List.getD_eq_getElem?_getD, List.getElem?_replicate]
  split <;> rfl

/-- **Simple units on the shipped definitions, after any public unit operations**: for every sign-consistent
    set `K` of fundamental dimensions, every source and target whose factors are unprefixed base units
    with a dimension in `K` (none a temperature), and whose factor lists pair up key by key — km/h →
    mi/s, kg·m² → lb·ft², … — whatever `convert` returns satisfies
    `result · size(target) = magnitude · X` with `(999/1000)^W · size(source) ≤ X ≤ (1000/999)^W · size(source)`,
    `W ≤ max(1, gcd) · (number of graph edges the plan walks)`. -/
theorem shipped_simple_conversions_near (ops : List Op) {c₁ c' : Conv Rat}
    (hc₁ : c₁ = { shipped with st := run shipped.st ops }) {K : List Dim} (hK : keysOkB K = true)
    {q r : Qty Rat} {t : UId} {plan : List (Rough Rat)}
    (hq : q.unit < c₁.st.units.length) (ht : t < c₁.st.units.length) (hz : Zt (c₁.st.dimOfUnit q.unit))
    (hfs : ∀ f ∈ (c₁.st.unit! q.unit).factors, factorOkB K c₁.st σS f = true ∧ Zt (c₁.st.dimOfUnit f.1))
    (hft : ∀ f ∈ (c₁.st.unit! t).factors, factorOkB K c₁.st σS f = true)
    (hspec : matchSpec (splat c₁.st t).byComplexFirst (splat c₁.st q.unit) (splat c₁.st t) [] = some ([], [], plan))
    (h : CM.exec (convert q t) c₁ = (.ok r, c')) :
    r.unit = t ∧ ∃ (X : Rat) (W : Nat) (P : Plan Rat),
      CM.exec (planConversion q.unit t) { c₁ with st := (c₁.st.unprefixedUnit q.unit).1 } = (.ok P, c') ∧
      W ≤ Gd c₁.st q.unit * planHops P ∧
      r.mag.val * unitSz σS c₁.st t = q.mag.val * X ∧ Near lbQ ubQ W X (unitSz σS c₁.st q.unit) := by
  obtain ⟨g, f⟩ := units_graphNear shipped_graphNearQ ops
  rw [← hc₁] at g f
  have hoff' : OffRef c₁.st Zt c₁.offsets := by
    have := shipped_offRef.ext f.ext
    rw [f.offsets]; exact this
  obtain ⟨hK1, hKw⟩ := keysOkB_sound hK
  have hz1 : Zt (c₁.st.dimOfUnit c₁.st.one) := by rw [g.inv.1.oneNum]; exact zt_number _
  exact convert_simple_near rootClosed_Zt bndQ symQ σS_pos hK1 hKw g (shipped_graphWF.frameN shipped_graphNearQ f) hoff'
    hq ht hz hz1
    (fun f hf => by
      obtain ⟨a, b, c⟩ := factorOkB_sound (hfs f hf).1
      exact ⟨a, b, c, (hfs f hf).2⟩)
    (fun f hf => factorOkB_sound (hft f hf)) hspec h

/-! ### the hypotheses are inhabited on the shipped definitions: 60 mile/hour in meter/second -/

def mileI : UId := (lookup "mile" init.unitByName).getD 0
def hourI : UId := (lookup "hour" init.unitByName).getD 0
def meterI : UId := (lookup "meter" init.unitByName).getD 0
def secondI : UId := (lookup "second" init.unitByName).getD 0
def speedOps : List Op := [Op.div mileI hourI, Op.div meterI secondI]
def cS : Conv Rat := { shipped with st := run shipped.st speedOps }
def mph : UId := match (shipped.st.divUnit mileI hourI).2 with | .ok i => i | .error _ => 0
def mps : UId := match ((shipped.st.divUnit mileI hourI).1.divUnit meterI secondI).2 with | .ok i => i | .error _ => 0
def KspeedS : List Dim := [cS.st.dimOfUnit meterI, (cS.st.dimOfUnit secondI).pow (-1)]
def q60 : Qty Rat := ⟨.int 60, mph⟩

theorem speedS_keys : keysOkB KspeedS = true := by decide +kernel

def speedSCheck : Bool :=
  (match (CM.exec (convert q60 mps) cS).1 with
   | .ok r => decide (r.unit = mps) && decide (lbQ ^ 3 * 60 * (1609344 / 1000 / 3600) ≤ r.mag.val) &&
       decide (r.mag.val ≤ ubQ ^ 3 * 60 * (1609344 / 1000 / 3600))
   | .error _ => false) &&
  (match (CM.exec (planConversion mph mps) { cS with st := (cS.st.unprefixedUnit mph).1 }).1 with
   | .ok P => decide (planHops P = 3)
   | .error _ => false) &&
  decide (Gd cS.st mph = 1) &&
  decide (mph < cS.st.units.length) && decide (mps < cS.st.units.length) &&
  decide ((cS.st.dimOfUnit mph).getD tIdx 0 = 0) &&
  (cS.st.unit! mph).factors.all (fun f => factorOkB KspeedS cS.st σS f && decide ((cS.st.dimOfUnit f.1).getD tIdx 0 = 0)) &&
  (cS.st.unit! mps).factors.all (factorOkB KspeedS cS.st σS) &&
  (match matchSpec (splat cS.st mps).byComplexFirst (splat cS.st mph) (splat cS.st mps) [] with
   | some (s', t', _) => s'.isEmpty && t'.isEmpty
   | none => false)

theorem speedS_evaluates : speedSCheck = true := by decide +kernel

set_option maxRecDepth 8000 in
/-- **Inhabited on the shipped definitions**: 60 mile/hour → meter/second goes through the factor
    planner (mile/hour is not a graph node), walks 3 graph edges, and the theorem's conclusion holds for
    the kernel-computed result: `result · size(m/s) = 60 · X` with `X` within `(1000/999)^3` of
    `size(mile/hour)`. -/
theorem shipped_simple_inhabited :
    ∃ (r : Qty Rat) (c' : Conv Rat), CM.exec (convert q60 mps) cS = (.ok r, c') ∧
      ∃ (X : Rat) (W : Nat), W ≤ 3 ∧ r.mag.val * unitSz σS cS.st mps = q60.mag.val * X ∧
        Near lbQ ubQ W X (unitSz σS cS.st mph) := by
  have hc := speedS_evaluates
  unfold speedSCheck at hc
  simp only [Bool.and_eq_true, decide_eq_true_eq, List.all_eq_true] at hc
  obtain ⟨⟨⟨⟨⟨⟨⟨⟨hconv, hplan⟩, hG⟩, hq⟩, ht⟩, hz⟩, hfs⟩, hft⟩, hspec⟩ := hc
  cases h1 : CM.exec (convert q60 mps) cS with
  | mk r1 c' =>
    cases r1 with
    | error e => rw [h1] at hconv; simp at hconv
    | ok r =>
      cases hm : matchSpec (splat cS.st mps).byComplexFirst (splat cS.st mph) (splat cS.st mps) [] with
      | none => rw [hm] at hspec; simp at hspec
      | some res =>
        obtain ⟨s', t', plan⟩ := res
        rw [hm] at hspec
        simp only [Bool.and_eq_true, List.isEmpty_iff] at hspec
        obtain ⟨rfl, rfl⟩ := hspec
        obtain ⟨_, X, W, P, hP, hW, hv, hn⟩ := shipped_simple_conversions_near speedOps (c₁ := cS) rfl speedS_keys
          (q := q60) (t := mps) hq ht hz (fun f hf => hfs f hf) (fun f hf => hft f hf) hm h1
        refine ⟨r, c', rfl, X, W, ?_, hv, hn⟩
        have hP' : CM.exec (planConversion mph mps) { cS with st := (cS.st.unprefixedUnit mph).1 } = (.ok P, c') := hP
        rw [hP'] at hplan
        simp only [decide_eq_true_eq] at hplan
        have hG' : Gd cS.st q60.unit = 1 := hG
        rw [hG', hplan] at hW
        omega

end Measured.Obligations.NearShipped
