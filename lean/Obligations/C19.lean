/-
  Per-run obligations for C19: the registries the shipped modules build at import are faithful
  (`init_faithful`, `init_prefixes_faithful`, `init_dimensions_faithful`: decidable checkers,
  evaluated by the kernel on the data regenerated from /repo, lifted by soundness lemmas), so the
  history theorems of `Props/C19.lean` apply to every history that starts from the imported library.
-/
import Props.C19
import Generated.Init

namespace Measured.Obligations
open Measured Generated St

def checkFaithful (s : St) : Bool :=
  s.unitByName.all (fun e => decide (e.2 < s.units.length) && s.nameLog.contains (e.2, e.1)) &&
  s.nameLog.all (fun e => lookup e.2 s.unitByName == some e.1) &&
  s.unitBySym.all (fun e => decide (e.2 < s.units.length) && s.symLog.contains (e.2, e.1)) &&
  s.symLog.all (fun e => lookup e.2 s.unitBySym == some e.1)

theorem checkFaithful_sound {s : St} (h : checkFaithful s = true) : Faithful s := by
  unfold checkFaithful at h
  simp only [Bool.and_eq_true, List.all_eq_true, decide_eq_true_eq, beq_iff_eq, List.contains_iff_mem] at h
  obtain ⟨⟨⟨h1, h2⟩, h3⟩, h4⟩ := h
  exact ⟨fun e he => h1 e he, fun e he => h2 e he, fun e he => h3 e he, fun e he => h4 e he⟩

theorem init_faithful : Faithful init := checkFaithful_sound (by decide +kernel)

/-- The shipped unit registries stay faithful in every history. -/
theorem shipped_unit_names_faithful (ops : List Op) : Faithful (run init ops) :=
  C19.unit_names_faithful_in_every_history init_faithful ops

def checkNFaithful {κ : Type} (t : NTab κ) : Bool :=
  t.byName.all (fun e => match t.objs[e.2]? with | some o => o.name == some e.1 | none => false) &&
  (List.range t.objs.length).all (fun i => match t.objs[i]? with
    | some o => (match o.name with | some n => NTab.lookupS n t.byName == some i | none => true)
    | none => true) &&
  (!t.regSyms ||
    (t.bySym.all (fun e => match t.objs[e.2]? with | some o => o.sym == some e.1 | none => false) &&
     (List.range t.objs.length).all (fun i => match t.objs[i]? with
       | some o => (match o.sym with | some y => NTab.lookupS y t.bySym == some i | none => true)
       | none => true)))

theorem checkNFaithful_sound {κ : Type} {t : NTab κ} (h : checkNFaithful t = true) : t.NFaithful := by
  unfold checkNFaithful at h
  simp only [Bool.and_eq_true, List.all_eq_true, List.mem_range, Bool.or_eq_true, Bool.not_eq_true'] at h
  obtain ⟨⟨h1, h2⟩, h3⟩ := h
  have idx : ∀ {i : Nat} {o : NObj κ}, t.objs[i]? = some o → i < t.objs.length :=
    fun hi => (List.getElem?_eq_some_iff.mp hi).1
  refine ⟨?_, ?_, ?_, ?_⟩
  · intro e he
    have := h1 e he
    cases ho : t.objs[e.2]? with
    | none => rw [ho] at this; cases this
    | some o => rw [ho] at this; exact ⟨o, rfl, by simpa using this⟩
  · intro i o n hi hn
    have := h2 i (idx hi)
    rw [hi] at this
    simp only [hn, beq_iff_eq] at this
    exact this
  · intro hr e he
    rcases h3 with h3 | h3
    · rw [hr] at h3; cases h3
    · have := h3.1 e he
      cases ho : t.objs[e.2]? with
      | none => rw [ho] at this; cases this
      | some o => rw [ho] at this; exact ⟨o, rfl, by simpa using this⟩
  · intro hr i o y hi hy
    rcases h3 with h3 | h3
    · rw [hr] at h3; cases h3
    · have := h3.2 i (idx hi)
      rw [hi] at this
      simp only [hy, beq_iff_eq] at this
      exact this

/-- `Prefix._known` / `_by_name` / `_by_symbol` as regenerated from /repo -/
def prefixTable : NTab Pfx :=
  NTab.ofRegistries (prefixes.map (fun p => (p.1, p.2.2.1, p.2.2.2))) pfxByName pfxBySym true

/-- `Dimension._known` / `_by_name` -/
def dimTable : NTab Dim :=
  NTab.ofRegistries dims dimByName [] false

theorem init_prefixes_faithful : prefixTable.NFaithful := checkNFaithful_sound (by decide +kernel)
theorem init_dimensions_faithful : dimTable.NFaithful := checkNFaithful_sound (by decide +kernel)

theorem shipped_prefix_declarations_faithful (ops : List (NTab.NOp Pfx)) : (prefixTable.run ops).NFaithful :=
  C19.declarations_faithful_in_every_history init_prefixes_faithful ops

theorem shipped_dimension_declarations_faithful (ops : List (NTab.NOp Dim)) : (dimTable.run ops).NFaithful :=
  C19.declarations_faithful_in_every_history init_dimensions_faithful ops

end Measured.Obligations
