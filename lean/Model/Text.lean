/-
  Model/Text.lean — rendering (`formatting.py`: superscript, prefix_str,
  _unit_to_magnitude_and_terms, unit_str, unit_format "/", quantity_str) and the
  QuantityTransformer of `parsing.py` on top of the table-driven parser of Model/LALR.lean.

  Not modelled: `str()` of a float/Decimal magnitude (CPython's shortest-repr algorithm).
  `quantityStr` therefore returns the unit text only; the harness joins it to Python's
  own `str(magnitude)`.  The "unpushable prefix" branch of `_unit_to_magnitude_and_terms`
  (a leading numeric magnitude such as `1000 m²`) renders a number and is `unmodelled`.
-/
import Model.Convert
import Model.LALR
import Model.Expr
import Model.Regex

namespace Measured

def isDigit (c : Char) : Bool := '0' ≤ c && c ≤ '9'

/-- Python's `int(text)` on `[+-]digits` (what the lexer can hand over); `none` = ValueError.
    Written over character lists with structural recursion only, so that the kernel can evaluate it. -/
def isNegChars : List Char → Bool
  | '-' :: _ => true
  | _ => false

def stripSign : List Char → List Char
  | '-' :: r => r
  | '+' :: r => r
  | r => r

def intOfChars (cs : List Char) : Option Int :=
  if (stripSign cs).isEmpty || !(stripSign cs).all isDigit then none
  else if isNegChars cs then some (-((Nat.ofDigitChars 10 (stripSign cs) 0 : Nat) : Int))
  else some ((Nat.ofDigitChars 10 (stripSign cs) 0 : Nat) : Int)

def superDigit (c : Char) : Char :=
  match c with
  | '0' => '⁰' | '1' => '¹' | '2' => '²' | '3' => '³' | '4' => '⁴'
  | '5' => '⁵' | '6' => '⁶' | '7' => '⁷' | '8' => '⁸' | '9' => '⁹'
  | '-' => '⁻' | c => c

/-- `formatting.superscript`. -/
def superscript (e : Int) : String :=
  if e == 1 then "" else String.ofList ((toString e).toList.map superDigit)

def fromSuperDigit (c : Char) : Option Char :=
  match c with
  | '⁰' => some '0' | '¹' => some '1' | '²' => some '2' | '³' => some '3' | '⁴' => some '4'
  | '⁵' => some '5' | '⁶' => some '6' | '⁷' => some '7' | '⁸' => some '8' | '⁹' => some '9'
  | '⁻' => some '-' | _ => none

/-- `formatting.from_superscript`: `int("".join(DIGITS[c] for c in string))`. -/
def fromSuperscript (t : String) : Option Int :=
  match t.toList.mapM fromSuperDigit with
  | some cs => intOfChars cs
  | none => none

/-- `formatting.prefix_str`. -/
def prefixStr (s : St) (p : Pfx) : String :=
  match s.pfxBySym.find? (fun e => e.2 == p) with
  | some e => e.1
  | none => if p.exp == 0 then "" else s!"{p.base}{superscript p.exp}"

section
variable {α : Type} [Add α] [Sub α] [Mul α] [Div α] [Neg α] [OfNat α 0] [OfNat α 1] [FloatLike α]

/-- `_unit_to_magnitude_and_terms`: the (prefix, factor, exponent) terms `unit_str` renders — the
    unit's prefix pushed down into the first factor as its `exponent`-th root.  `unmodelled` when
    the root does not exist (a numeric magnitude would lead the text). -/
def unitTermList (u : UnitRec) : Except Exc (List (Pfx × UId × Int)) :=
  match u.factors with
  | [] => .error .unmodelled
  | (f0, e0) :: rest =>
    -- unit.prefix * factor.prefix, the factor being a base unit (identity prefix)
    match u.pfx.root e0 with
    | .error _ => .error .unmodelled
    | .ok p0 => .ok ((p0, f0, e0) :: rest.map (fun fe => (Pfx.identity, fe.1, fe.2)))

/-- The unit expression the parser rebuilds from the rendered terms: every term is
    `resolve_symbol(prefix+symbol) ** exponent`, the terms are multiplied left to right, and the
    `unit` rule divides by `One`. -/
def termExpr (t : Pfx × UId × Int) : UExpr :=
  .pow (if t.1.base == 0 then .ref t.2.1 else .pfx t.1 (.ref t.2.1)) t.2.2

def termsExpr (one : UId) : List (Pfx × UId × Int) → UExpr
  | [] => .ref one
  | t :: rest => .div (rest.foldl (fun acc x => .mul acc (termExpr x)) (termExpr t)) (.ref one)

def renderTerm (s : St) (t : Pfx × UId × Int) : String :=
  s!"{prefixStr s t.1}{((s.symsOf t.2.1).head?).getD "None"}{superscript t.2.2}"

/-- `unit_str` for a unit without a symbol. -/
def unitTerms (s : St) (u : UnitRec) : Except Exc String :=
  match unitTermList u with
  | .error e => .error e
  | .ok ts => .ok ("⋅".intercalate (ts.map (renderTerm s)))

/-- `formatting.unit_str`. -/
def unitStrPure (s : St) (i : UId) : Except Exc String :=
  let u := s.unit! i
  match (s.symsOf i).head? with
  | some y => .ok y
  | none => unitTerms s u

def unitStr (i : UId) : CM α String := do
  let s ← getSt
  liftE (unitStrPure s i)

/-- The unit part of `formatting.quantity_str`. -/
def quantityStr (q : Qty α) : CM α String := unitStr q.unit

/-- `formatting.unit_format(unit, "/")`. -/
def unitFormatRatio (i : UId) : CM α String := do
  let (n, d) ← liftSt (fun s => let (s', n, d) := s.asRatio i; (s', (n, d)))
  let s ← getSt
  if d == s.one then unitStr i
  else
    let a ← unitStr n
    let b ← unitStr d
    pure (a ++ "/" ++ b)

/-! ### the lexer's terminals

The terminal patterns are data of the generated parser (regenerated per run into
`Generated/Grammar.lean`); `Model/Regex.lean` parses and interprets them. -/

def isSign (c : Char) : Bool := c == '+' || c == '-'
def signLen : List Char → Nat
  | c :: _ => if isSign c then 1 else 0
  | [] => 0

def noMatch : Matcher := fun _ => none

/-- The matcher of one terminal: `PatternRE` is parsed as a regular expression, `PatternStr` is a
    literal.  An unparsable pattern never matches (and fails the `patterns_parse` obligation). -/
def matcherOf (isRegex : Bool) (text : String) : Matcher :=
  if isRegex then
    match Re.parse text with
    | some re => re.matchLen
    | none => noMatch
  else (Re.ofLiteral text).matchLen

/-- Build the lexer configuration from the terminal scan order and the terminal patterns extracted
    from the parser. -/
def mkLexConf (order : List String) (ignore : List String) (patterns : List (String × Bool × String)) : LexConf :=
  { terminals := order.map (fun n =>
      match patterns.find? (fun k => k.1 == n) with
      | some k => (n, matcherOf k.2.1 k.2.2)
      | none => (n, noMatch)),
    ignore := ignore }

/-- The grammar as data (emitted per run from `_parser.py`). -/
structure Grammar where
  table      : LRTable
  rules      : List GRule
  startUnit  : Nat
  endUnit    : Nat
  startQty   : Nat
  endQty     : Nat
  lexOrder   : List String
  ignore     : List String
  /-- terminal name, is it a `PatternRE` (else a literal `PatternStr`), pattern text -/
  patterns   : List (String × Bool × String)

def Grammar.lexConf (g : Grammar) : LexConf := mkLexConf g.lexOrder g.ignore g.patterns

/-! ### QuantityTransformer -/

inductive Val (α : Type) where
  | tok (t : Tok)
  | unit (u : UId)
  | exp (n : Int)
  | mag (m : Mag α)
  | qty (q : Qty α)
  | tree (name : String) (children : List (Val α))

/-- Exact value of a decimal float literal (`[sign] digits [. digits] [e [sign] digits]`).
    A literal of decimal magnitude beyond 10^400 (resp. below 10^-400) is represented by
    ±10^400 (resp. ±10^-400): both round to ±inf (resp. ±0.0) in binary64, as `float(text)` does,
    without expanding an astronomically large power of ten. -/
def decimalLiteral (t : String) : Option Rat :=
  let cs := t.toList
  let neg := match cs with | '-' :: _ => true | _ => false
  let cs := cs.drop (signLen cs)
  let ip := cs.takeWhile isDigit
  let cs := cs.drop ip.length
  let (fp, cs) := match cs with
    | '.' :: r => (r.takeWhile isDigit, r.drop (r.takeWhile isDigit).length)
    | _ => ([], cs)
  let e : Option Int := match cs with
    | c :: r => if c == 'e' || c == 'E' then intOfChars r else none
    | [] => some 0
  match e with
  | none => none
  | some e =>
    let digits := ip ++ fp
    let n : Nat := digits.foldl (fun a c => a * 10 + (c.toNat - 48)) 0
    let e' : Int := e - fp.length
    -- the value lies in [10^(mag10-1), 10^mag10)
    let mag10 : Int := (digits.dropWhile (· == '0')).length + e'
    let v : Rat :=
      if n == 0 then 0
      else if mag10 > 401 then ((10 ^ 400 : Nat) : Rat)
      else if mag10 < -400 then 1 / ((10 ^ 400 : Nat) : Rat)
      else if e' ≥ 0 then ((n * 10 ^ e'.toNat : Nat) : Rat) else (n : Rat) / ((10 ^ (-e').toNat : Nat) : Rat)
    some (if neg then -v else v)

/-- `parsing._integer(text)`: `int(text)` raises ValueError beyond `sys.get_int_max_str_digits()`,
    which the transformer turns into a ParseError (after the `fix:` commit). -/
def intMaxStrDigits : Nat := 4300

def pyInt (t : String) : Except Exc Int :=
  let digits := (t.toList.filter isDigit).length
  if digits > intMaxStrDigits then .error .parseError
  else
    match intOfChars t.toList with
    | some i => .ok i
    | none => .error .parseError

/-- lark's child filter: `_`-terminals dropped, `_`-rule trees inlined. -/
def filterKids (args : List (Val α)) : List (Val α) :=
  args.flatMap (fun a =>
    match a with
    | .tok t => if t.type.startsWith "_" then [] else [a]
    | .tree n ch => if n.startsWith "_" then ch else [a]
    | a => [a])

/-- `reduce(operator.mul, terms)`. -/
def mulAll (s : St) (acc : UId) : List (Val α) → St × Except Exc UId
  | [] => (s, .ok acc)
  | .unit w :: rest =>
    match s.mulUnit acc w with
    | (s', .ok u) => mulAll s' u rest
    | (s', .error e) => (s', .error e)
  | _ :: _ => (s, .error .unmodelled)

/-- `Unit.resolve_symbol(symbol) ** exponent`. -/
def termUnit (s : St) (sym : String) (n : Int) : St × Except Exc UId :=
  match s.resolveSymbol sym with
  | (s', .ok u) => let (s'', v) := s'.powUnit u n; (s'', .ok v)
  | (s', .error e) => (s', .error e)

def wrapUnit (x : St × Except Exc UId) : St × Except Exc (Val α) := (x.1, x.2.map Val.unit)

/-! The callbacks of `QuantityTransformer`, one per alias / origin.  They act on the unit
    table only (interning), never on the conversion graph. -/

def actInt (s : St) : List (Val α) → St × Except Exc (Val α)
  | [.tok t] => (s, (pyInt t.text).map (fun i => .mag (.int i)))
  | _ => (s, .error .unmodelled)

def actFloat (s : St) : List (Val α) → St × Except Exc (Val α)
  | [.tok t] =>
      (match decimalLiteral t.text with
       | some q => (s, .ok (.mag (.flt (FloatLike.ofRat q))))
       | none => (s, .error .unmodelled))
  | _ => (s, .error .unmodelled)

def actCarat (s : St) : List (Val α) → St × Except Exc (Val α)
  | [.tok t] => (s, (pyInt (t.text.drop 1).toString).map .exp)
  | _ => (s, .error .unmodelled)

def actSuperscript (s : St) : List (Val α) → St × Except Exc (Val α)
  | [.tok t] =>
      (match t.text.toList.mapM fromSuperDigit with
       | some cs => (s, (pyInt (String.ofList cs)).map .exp)
       | none => (s, .error .keyError))
  | _ => (s, .error .unmodelled)

def actTerm (s : St) : List (Val α) → St × Except Exc (Val α)
  | [.tok t] => wrapUnit (termUnit s t.text 1)
  | [.tok t, .exp n] => wrapUnit (termUnit s t.text n)
  | _ => (s, .error .unmodelled)

def actSequence (s : St) : List (Val α) → St × Except Exc (Val α)
  | (.unit u) :: rest => wrapUnit (mulAll s u rest)
  | _ => (s, .error .unmodelled)

def actUnit (s : St) : List (Val α) → St × Except Exc (Val α)
  | [.unit n] => wrapUnit (s.divUnit n s.one)
  | [.unit n, .unit d] => wrapUnit (s.divUnit n d)
  | _ => (s, .error .unmodelled)

def actQuantity (s : St) : List (Val α) → St × Except Exc (Val α)
  | [.mag m, .unit u] => (s, .ok (.qty { mag := m, unit := u }))
  | _ => (s, .error .unmodelled)

def transformerAct (s : St) (r : GRule) (args : List (Val α)) : St × Except Exc (Val α) :=
  let kids := filterKids args
  let name := r.alias.getD r.origin
  if name = "int" then actInt s kids
  else if name = "float" then actFloat s kids
  else if name = "carat_exponent" then actCarat s kids
  else if name = "superscript_exponent" then actSuperscript s kids
  else if name = "term" then actTerm s kids
  else if name = "unit_sequence" then actSequence s kids
  else if name = "unit" then actUnit s kids
  else if name = "quantity" then actQuantity s kids
  else if name.startsWith "_" then (s, .ok (.tree name kids))     -- helper rules: inlined later
  else (s, .error .unmodelled)

def parseStart (g : Grammar) (start stop : Nat) (t : String) : CM α (Val α) :=
  liftStE (fun s => parseWith g.table g.rules start stop (g.lexConf) transformerAct Val.tok s t)

/-! ### the symbol table seen through `resolve_symbol` -/

/-- Does `prefix symbol ++ unit symbol` resolve to something other than `prefix * unit`? -/
def collides (s : St) (ps : String) (p : Pfx) (us : String) (u : UId) : Bool :=
  let r1 := s.pmulUnit p u
  let r2 := r1.1.resolveSymbol (ps ++ us)
  match r1.2, r2.2 with
  | .ok a, .ok b => a != b
  | .error _, _ => false        -- prefixes of different bases: outside the model
  | .ok _, .error _ => true

/-- Every colliding (prefix symbol, unit symbol) of the state's tables (same-base pairs). -/
def collisionList (s : St) : List (String × String) :=
  s.pfxBySym.flatMap (fun pe => s.unitBySym.filterMap (fun ue =>
    if collides s pe.1 pe.2 ue.1 ue.2 then some (pe.1, ue.1) else none))


/-- `Unit.parse`. -/
def parseUnit (g : Grammar) (t : String) : CM α UId := do
  match ← parseStart g g.startUnit g.endUnit t with
  | .unit u => pure u
  | _ => throw .unmodelled

/-- `Quantity.parse`. -/
def parseQuantity (g : Grammar) (t : String) : CM α (Qty α) := do
  match ← parseStart g g.startQty g.endQty t with
  | .qty q => pure q
  | _ => throw .unmodelled

/-- The parse tree lark's default builder produces (used for C16). -/
def parseTree (g : Grammar) (start stop : Nat) (t : String) : Except Exc Tree :=
  (parseWith g.table g.rules start stop (g.lexConf) treeAction Tree.tok () t).2

end

end Measured
