/-
  Per-run obligation for C17: the invariants the idempotence theorem needs hold in the state the
  shipped modules register at import (`init_ginv`, `init_canon`, decide +kernel) and are preserved by
  every history (`run_ginv`, `run_canon`) — so in EVERY state reachable from the imported library,
  parsing a text twice gives the same result and the second parse changes nothing.
-/
import Props.C17
import Obligations.C02

namespace Measured.Obligations
open Measured Generated

theorem reachable_good (ops : List Op) : Good (run init ops) :=
  ⟨run_ginv init_ginv ops, run_canon init_ginv init_canon ops⟩

section
variable {α : Type} [Add α] [Sub α] [Mul α] [Div α] [Neg α] [OfNat α 0] [OfNat α 1] [FloatLike α]

theorem reachable_parse_idempotent_unit (ops : List Op) (g : Grammar) (t : String) (c : Conv α)
    (hc : c.st = run init ops) :
    CM.exec (parseUnit g t : CM α UId) (CM.exec (parseUnit g t : CM α UId) c).2 = CM.exec (parseUnit g t : CM α UId) c :=
  C17.parse_idempotent_unit g t c (by rw [hc]; exact reachable_good ops)

theorem reachable_parse_idempotent_quantity (ops : List Op) (g : Grammar) (t : String) (c : Conv α)
    (hc : c.st = run init ops) :
    CM.exec (parseQuantity g t : CM α (Qty α)) (CM.exec (parseQuantity g t : CM α (Qty α)) c).2 =
      CM.exec (parseQuantity g t : CM α (Qty α)) c :=
  C17.parse_idempotent_quantity g t c (by rw [hc]; exact reachable_good ops)

end
end Measured.Obligations
