/-
  Proofs/NamesFaithful.lean — Prefix / Dimension declarations bind faithfully in every history,
  and a declaration that raises changes nothing (C19, single-name classes).
-/
import Model.Names

namespace Measured
namespace NTab
variable {κ : Type} [DecidableEq κ]

/-! ### dict facts -/

theorem lookupS_setS_same (k : String) (v : Nat) : ∀ l, lookupS k (setS k v l) = some v
  | [] => by simp [setS, lookupS]
  | (k', v') :: rest => by
    unfold setS
    by_cases h : (k' == k) = true
    · simp [h, lookupS]
    · simp only [h, Bool.false_eq_true, if_false, lookupS]
      exact lookupS_setS_same k v rest

theorem lookupS_setS_other {k k' : String} (hne : k' ≠ k) (v : Nat) : ∀ l, lookupS k' (setS k v l) = lookupS k' l
  | [] => by
    have : (k == k') = false := by simpa using fun h => hne h.symm
    simp [setS, lookupS, this]
  | (k0, v0) :: rest => by
    unfold setS
    by_cases h : (k0 == k) = true
    · have hk : k0 = k := by simpa using h
      have : (k0 == k') = false := by subst hk; simpa using fun h => hne h.symm
      simp [h, lookupS, this]
    · simp only [h, Bool.false_eq_true, if_false, lookupS]
      rw [lookupS_setS_other hne v rest]

theorem mem_setS {k : String} {v : Nat} {e : String × Nat} : ∀ {l}, e ∈ setS k v l → e = (k, v) ∨ e ∈ l
  | [], h => by simp [setS] at h; exact Or.inl h
  | (k0, v0) :: rest, h => by
    unfold setS at h
    by_cases hk : (k0 == k) = true
    · simp only [hk, if_true, List.mem_cons] at h
      rcases h with h | h
      · have hk' : k0 = k := by simpa using hk
        left; rw [h, hk']
      · exact Or.inr (List.mem_cons_of_mem _ h)
    · simp only [hk, Bool.false_eq_true, if_false, List.mem_cons] at h
      rcases h with h | h
      · exact Or.inr (by rw [h]; exact List.mem_cons_self)
      · rcases mem_setS h with h | h
        · exact Or.inl h
        · exact Or.inr (List.mem_cons_of_mem _ h)

theorem lookupS_mem {k : String} {v : Nat} : ∀ {l}, lookupS k l = some v → (k, v) ∈ l
  | [], h => by simp [lookupS] at h
  | (k0, v0) :: rest, h => by
    unfold lookupS at h
    by_cases hk : (k0 == k) = true
    · simp only [hk, if_true] at h
      have hk' : k0 = k := by simpa using hk
      injection h with h; subst h; subst hk'; exact List.mem_cons_self
    · simp only [hk, Bool.false_eq_true, if_false] at h
      exact List.mem_cons_of_mem _ (lookupS_mem h)

/-! ### the invariant -/

structure NFaithful (t : NTab κ) : Prop where
  nameReg : ∀ e ∈ t.byName, ∃ o, t.objs[e.2]? = some o ∧ o.name = some e.1
  nameObj : ∀ i o n, t.objs[i]? = some o → o.name = some n → lookupS n t.byName = some i
  symReg  : t.regSyms = true → ∀ e ∈ t.bySym, ∃ o, t.objs[e.2]? = some o ∧ o.sym = some e.1
  symObj  : t.regSyms = true → ∀ i o y, t.objs[i]? = some o → o.sym = some y → lookupS y t.bySym = some i

/-- A name is never bound to two objects: two objects reporting one name are the same object. -/
theorem NFaithful.name_unique {t : NTab κ} (h : NFaithful t) {i j : Nat} {a b : NObj κ} {n : String}
    (hi : t.objs[i]? = some a) (hj : t.objs[j]? = some b) (ha : a.name = some n) (hb : b.name = some n) : i = j := by
  have h1 := h.nameObj i a n hi ha
  have h2 := h.nameObj j b n hj hb
  rw [h1] at h2; injection h2

theorem getElem?_setObj (t : NTab κ) (i : Nat) (f : NObj κ → NObj κ) (j : Nat) :
    (t.setObj i f).objs[j]? = if j = i then (t.objs[j]?).map f else t.objs[j]? := by
  unfold setObj
  simp only [List.getElem?_mapIdx]
  cases h : t.objs[j]? with
  | none => simp
  | some o => by_cases hj : j = i <;> simp [hj]

/-- setting the NAME of an unnamed-or-same-named object `i` to `n`, `n` not bound to another object -/
theorem setName_faithful {t : NTab κ} (h : NFaithful t) {i : Nat} {o : NObj κ} (hi : t.objs[i]? = some o)
    (n : String) (hown : o.name = none ∨ o.name = some n)
    (hfree : lookupS n t.byName = none ∨ lookupS n t.byName = some i) :
    NFaithful { (t.setObj i (fun o => { o with name := some n })) with byName := setS n i t.byName } := by
  refine ⟨?_, ?_, ?_, ?_⟩
  · intro e he
    show ∃ o', (t.setObj i _).objs[e.2]? = some o' ∧ o'.name = some e.1
    rw [getElem?_setObj]
    rcases mem_setS he with he | he
    · subst he; simp only [if_true, hi, Option.map_some]; exact ⟨_, rfl, rfl⟩
    · obtain ⟨o', ho', hn'⟩ := h.nameReg e he
      by_cases hj : e.2 = i
      · simp only [hj, if_true, hi, Option.map_some]
        refine ⟨_, rfl, ?_⟩
        rw [hj, hi] at ho'; injection ho' with ho'; subst ho'
        rcases hown with hown | hown
        · rw [hown] at hn'; cases hn'
        · rw [hown] at hn'; simpa using hn'
      · simp only [hj, if_false]; exact ⟨o', ho', hn'⟩
  · intro j o' m hj hm
    show lookupS m (setS n i t.byName) = some j
    rw [getElem?_setObj] at hj
    by_cases hji : j = i
    · subst hji
      simp only [if_true, hi, Option.map_some] at hj
      injection hj with hj; subst hj
      simp only at hm; injection hm with hm; subst hm
      exact lookupS_setS_same _ _ _
    · simp only [hji, if_false] at hj
      have hold := h.nameObj j o' m hj hm
      by_cases hmn : m = n
      · subst hmn
        rcases hfree with hf | hf
        · rw [hf] at hold; cases hold
        · rw [hf] at hold; injection hold with hold; exact absurd hold.symm hji
      · rw [lookupS_setS_other hmn]; exact hold
  · intro hr e he
    show ∃ o', (t.setObj i _).objs[e.2]? = some o' ∧ o'.sym = some e.1
    rw [getElem?_setObj]
    obtain ⟨o', ho', hn'⟩ := h.symReg hr e he
    by_cases hj : e.2 = i
    · simp only [hj, if_true, hi, Option.map_some]
      rw [hj, hi] at ho'; injection ho' with ho'; subst ho'
      exact ⟨_, rfl, hn'⟩
    · simp only [hj, if_false]; exact ⟨o', ho', hn'⟩
  · intro hr j o' y hj hy
    show lookupS y t.bySym = some j
    rw [getElem?_setObj] at hj
    by_cases hji : j = i
    · subst hji
      simp only [if_true, hi, Option.map_some] at hj
      injection hj with hj; subst hj
      exact h.symObj hr j o y hi hy
    · simp only [hji, if_false] at hj
      exact h.symObj hr j o' y hj hy

/-- the same for the SYMBOL slot (classes with a symbol registry) -/
theorem setSym_faithful {t : NTab κ} (h : NFaithful t) {i : Nat} {o : NObj κ} (hi : t.objs[i]? = some o)
    (y : String) (hown : o.sym = none ∨ o.sym = some y)
    (hfree : lookupS y t.bySym = none ∨ lookupS y t.bySym = some i) :
    NFaithful { (t.setObj i (fun o => { o with sym := some y })) with bySym := setS y i t.bySym } := by
  refine ⟨?_, ?_, ?_, ?_⟩
  · intro e he
    show ∃ o', (t.setObj i _).objs[e.2]? = some o' ∧ o'.name = some e.1
    rw [getElem?_setObj]
    obtain ⟨o', ho', hn'⟩ := h.nameReg e he
    by_cases hj : e.2 = i
    · simp only [hj, if_true, hi, Option.map_some]
      rw [hj, hi] at ho'; injection ho' with ho'; subst ho'
      exact ⟨_, rfl, hn'⟩
    · simp only [hj, if_false]; exact ⟨o', ho', hn'⟩
  · intro j o' m hj hm
    show lookupS m t.byName = some j
    rw [getElem?_setObj] at hj
    by_cases hji : j = i
    · subst hji
      simp only [if_true, hi, Option.map_some] at hj
      injection hj with hj; subst hj
      exact h.nameObj j o m hi hm
    · simp only [hji, if_false] at hj
      exact h.nameObj j o' m hj hm
  · intro hr e he
    show ∃ o', (t.setObj i _).objs[e.2]? = some o' ∧ o'.sym = some e.1
    rw [getElem?_setObj]
    rcases mem_setS he with he | he
    · subst he; simp only [if_true, hi, Option.map_some]; exact ⟨_, rfl, rfl⟩
    · obtain ⟨o', ho', hn'⟩ := h.symReg hr e he
      by_cases hj : e.2 = i
      · simp only [hj, if_true, hi, Option.map_some]
        refine ⟨_, rfl, ?_⟩
        rw [hj, hi] at ho'; injection ho' with ho'; subst ho'
        rcases hown with hown | hown
        · rw [hown] at hn'; cases hn'
        · rw [hown] at hn'; simpa using hn'
      · simp only [hj, if_false]; exact ⟨o', ho', hn'⟩
  · intro hr j o' m hj hm
    show lookupS m (setS y i t.bySym) = some j
    rw [getElem?_setObj] at hj
    by_cases hji : j = i
    · subst hji
      simp only [if_true, hi, Option.map_some] at hj
      injection hj with hj; subst hj
      simp only at hm; injection hm with hm; subst hm
      exact lookupS_setS_same _ _ _
    · simp only [hji, if_false] at hj
      have hold := h.symObj hr j o' m hj hm
      by_cases hmn : m = y
      · subst hmn
        rcases hfree with hf | hf
        · rw [hf] at hold; cases hold
        · rw [hf] at hold; injection hold with hold; exact absurd hold.symm hji
      · rw [lookupS_setS_other hmn]; exact hold

theorem takenByOther_false {reg : List (String × Nat)} {n : String} {i : Nat}
    (h : takenByOther reg (some n) (some i) = false) : lookupS n reg = none ∨ lookupS n reg = some i := by
  unfold takenByOther at h
  simp only at h
  cases hl : lookupS n reg with
  | none => exact Or.inl rfl
  | some j =>
    rw [hl] at h
    simp only [bne_eq_false_iff_eq] at h
    injection h with h
    exact Or.inr (by rw [h])

theorem ownClash_false {cur : Option String} {n : String} (h : ownClash cur (some n) = false) :
    cur = none ∨ cur = some n := by
  unfold ownClash at h
  cases cur with
  | none => exact Or.inl rfl
  | some c =>
    simp only [bne_eq_false_iff_eq] at h
    exact Or.inr (by rw [h])

theorem adoptName_faithful {t : NTab κ} (h : NFaithful t) (i : Nat) (name : Option String)
    (hn : takenByOther t.byName name (some i) = false) : NFaithful (t.adoptName i name) := by
  unfold adoptName
  split
  · rename_i n o ho
    split
    · rename_i hnone
      exact setName_faithful h ho n (Or.inl (by simpa using hnone)) (takenByOther_false hn)
    · exact h
  · exact h

theorem adoptSym_faithful {t : NTab κ} (h : NFaithful t) (i : Nat) (sym : Option String)
    (hs : t.regSyms = true → takenByOther t.bySym sym (some i) = false) : NFaithful (t.adoptSym i sym) := by
  unfold adoptSym
  split
  · exact h
  · rename_i hr
    have hr' : t.regSyms = true := by simpa using hr
    split
    · rename_i y o ho
      split
      · rename_i hnone
        exact setSym_faithful h ho y (Or.inl (by simpa using hnone)) (takenByOther_false (hs hr'))
      · exact h
    · exact h

theorem adoptName_bySym (t : NTab κ) (i : Nat) (name : Option String) :
    (t.adoptName i name).bySym = t.bySym ∧ (t.adoptName i name).regSyms = t.regSyms := by
  unfold adoptName
  split
  · split
    · exact ⟨rfl, rfl⟩
    · exact ⟨rfl, rfl⟩
  · exact ⟨rfl, rfl⟩

theorem adopt_faithful {t : NTab κ} (h : NFaithful t) (i : Nat) (name sym : Option String)
    (hn : takenByOther t.byName name (some i) = false)
    (hs : t.regSyms = true → takenByOther t.bySym sym (some i) = false) :
    NFaithful (t.adopt i name sym) := by
  unfold adopt
  have h1 := adoptName_faithful h i name hn
  obtain ⟨hb, hr⟩ := adoptName_bySym t i name
  exact adoptSym_faithful h1 i sym (by rw [hb, hr]; exact hs)

theorem find_some {t : NTab κ} {key : κ} {i : Nat} (h : t.find key = some i) : ∃ o, t.objs[i]? = some o := by
  unfold find at h
  have := List.findIdx?_eq_some_iff_getElem.mp h
  obtain ⟨hlt, _⟩ := this
  exact ⟨t.objs[i], by simp [hlt]⟩

omit [DecidableEq κ] in
theorem append_faithful {t : NTab κ} (h : NFaithful t) (key : κ) :
    NFaithful ({ t with objs := t.objs ++ [({ key := key } : NObj κ)] } : NTab κ) := by
  refine ⟨?_, ?_, ?_, ?_⟩
  · intro e he
    obtain ⟨o, ho, hn⟩ := h.nameReg e he
    refine ⟨o, ?_, hn⟩
    show (t.objs ++ _)[e.2]? = some o
    have hlt : e.2 < t.objs.length := by
      cases hh : t.objs[e.2]? with
      | none => rw [hh] at ho; cases ho
      | some _ => exact (List.getElem?_eq_some_iff.mp hh).1
    rw [List.getElem?_append_left hlt]; exact ho
  · intro i o n hi hn
    show lookupS n t.byName = some i
    have hi' : (t.objs ++ [({ key := key } : NObj κ)])[i]? = some o := hi
    by_cases hlt : i < t.objs.length
    · rw [List.getElem?_append_left hlt] at hi'; exact h.nameObj i o n hi' hn
    · rw [List.getElem?_append_right (by omega)] at hi'
      cases hk : i - t.objs.length with
      | zero => rw [hk] at hi'; simp at hi'; subst hi'; cases hn
      | succ k => rw [hk] at hi'; simp at hi'
  · intro hr e he
    obtain ⟨o, ho, hn⟩ := h.symReg hr e he
    refine ⟨o, ?_, hn⟩
    show (t.objs ++ _)[e.2]? = some o
    have hlt : e.2 < t.objs.length := by
      cases hh : t.objs[e.2]? with
      | none => rw [hh] at ho; cases ho
      | some _ => exact (List.getElem?_eq_some_iff.mp hh).1
    rw [List.getElem?_append_left hlt]; exact ho
  · intro hr i o y hi hy
    show lookupS y t.bySym = some i
    have hi' : (t.objs ++ [({ key := key } : NObj κ)])[i]? = some o := hi
    by_cases hlt : i < t.objs.length
    · rw [List.getElem?_append_left hlt] at hi'; exact h.symObj hr i o y hi' hy
    · rw [List.getElem?_append_right (by omega)] at hi'
      cases hk : i - t.objs.length with
      | zero => rw [hk] at hi'; simp at hi'; subst hi'; cases hy
      | succ k => rw [hk] at hi'; simp at hi'

theorem takenByOther_of_none {reg : List (String × Nat)} {text : Option String} (i : Nat)
    (h : takenByOther reg text none = false) : takenByOther reg text (some i) = false := by
  cases text with
  | none => rfl
  | some n =>
    unfold takenByOther at h ⊢
    simp only at h ⊢
    cases hl : lookupS n reg with
    | none => rfl
    | some j => rw [hl] at h; simp at h

/-- **The interning constructor keeps the registries faithful.** -/
theorem construct_faithful {t : NTab κ} (h : NFaithful t) (key : κ) (name sym : Option String) :
    NFaithful (t.construct key name sym).1 := by
  unfold construct
  split
  · exact h
  · rename_i herr
    have herr' : t.constructErr key (given name) (given sym) = false := by simpa using herr
    unfold constructErr at herr'
    simp only [Bool.or_eq_false_iff] at herr'
    obtain ⟨⟨hn, hs⟩, _⟩ := herr'
    have hs' : t.regSyms = true → takenByOther t.bySym (given sym) (t.find key) = false := by
      intro hr; simpa [hr] using hs
    cases hf : t.find key with
    | some i =>
      simp only
      rw [hf] at hn hs'
      exact adopt_faithful h i _ _ hn hs'
    | none =>
      simp only
      rw [hf] at hn hs'
      exact adopt_faithful (append_faithful h key) _ _ _ (takenByOther_of_none _ hn)
        (fun hr => takenByOther_of_none _ (hs' hr))

/-- **`Dimension.derive` keeps the registries faithful.** -/
theorem derive_faithful {t : NTab κ} (h : NFaithful t) (i : Nat) (name : String) (sym : Option String) :
    NFaithful (t.derive i name sym).1 := by
  unfold derive
  split
  · exact h
  · rename_i hex
    split
    · exact h
    · rename_i herr
      have herr' : t.deriveErr i name = false := by simpa using herr
      unfold deriveErr at herr'
      simp only [Bool.or_eq_false_iff] at herr'
      cases ho : t.objs[i]? with
      | none => simp [ho] at hex
      | some o =>
        rw [ho] at herr'
        simp only [Option.bind_some] at herr'
        exact setName_faithful h ho name (ownClash_false herr'.2) (takenByOther_false herr'.1)

theorem step_faithful {t : NTab κ} (h : NFaithful t) (o : NOp κ) : NFaithful (t.step o).1 := by
  cases o with
  | construct k n y => exact construct_faithful h k n y
  | derive i n y => exact derive_faithful h i n y

/-- **Every history of declarations keeps names and symbols faithful** — whatever was constructed
    anonymously before, in whatever order. -/
theorem run_faithful {t : NTab κ} (h : NFaithful t) (ops : List (NOp κ)) : NFaithful (t.run ops) := by
  induction ops generalizing t with
  | nil => exact h
  | cons o rest ih => exact ih (step_faithful h o)

/-- **A declaration that raises leaves the table exactly as it was.** -/
theorem construct_error_noop (t : NTab κ) (key : κ) (name sym : Option String) (e : Exc)
    (h : (t.construct key name sym).2 = .error e) : (t.construct key name sym).1 = t := by
  unfold construct at h ⊢
  split
  · rfl
  · rename_i herr
    simp only [herr, if_false] at h
    cases hf : t.find key with
    | some i => rw [hf] at h; cases h
    | none => rw [hf] at h; cases h

theorem derive_error_noop (t : NTab κ) (i : Nat) (name : String) (sym : Option String) (e : Exc)
    (h : (t.derive i name sym).2 = .error e) : (t.derive i name sym).1 = t := by
  unfold derive at h ⊢
  split
  · rfl
  · split
    · rfl
    · rename_i h1 h2
      simp only [h1, h2, if_false] at h
      cases h

theorem step_error_noop (t : NTab κ) (o : NOp κ) (e : Exc) (h : (t.step o).2 = .error e) : (t.step o).1 = t := by
  cases o with
  | construct k n y => exact construct_error_noop t k n y e h
  | derive i n y => exact derive_error_noop t i n y e h

/-! ### a successful declaration binds -/

theorem adoptSym_names (t : NTab κ) (i : Nat) (sym : Option String) (j : Nat) :
    ((t.adoptSym i sym).objs[j]?).bind (·.name) = (t.objs[j]?).bind (·.name) := by
  unfold adoptSym
  split
  · rfl
  · split
    · rename_i y o ho
      split
      · show ((t.setObj i _).objs[j]?).bind _ = _
        rw [getElem?_setObj]
        by_cases hj : j = i
        · subst hj; simp only [if_true, ho, Option.map_some, Option.bind_some]
        · simp only [hj, if_false]
      · rfl
    · rfl

theorem adoptName_reports {t : NTab κ} {i : Nat} {o : NObj κ} (ho : t.objs[i]? = some o) (n : String)
    (hown : o.name = none ∨ o.name = some n) :
    ((t.adoptName i (some n)).objs[i]?).bind (·.name) = some n := by
  unfold adoptName
  simp only [ho]
  rcases hown with hon | hon
  · simp only [hon, Option.isNone_none, if_true]
    show ((t.setObj i _).objs[i]?).bind _ = _
    rw [getElem?_setObj]; simp only [if_true, ho, Option.map_some, Option.bind_some]
  · simp only [hon, Option.isNone_some, Bool.false_eq_true, if_false, ho, Option.bind_some]

/-- **A declaration that returns binds**: the returned object reports the declared name and a
    lookup by that name returns it — whether or not an equal anonymous object existed before. -/
theorem construct_binds {t : NTab κ} (h : NFaithful t) (key : κ) (name sym : Option String) (i : Nat)
    (hr : (t.construct key name sym).2 = .ok i) (n : String) (hn : given name = some n) :
    lookupS n (t.construct key name sym).1.byName = some i ∧
    ((t.construct key name sym).1.objs[i]?).bind (·.name) = some n := by
  have hf := construct_faithful h key name sym
  suffices hs : ((t.construct key name sym).1.objs[i]?).bind (·.name) = some n by
    refine ⟨?_, hs⟩
    cases ho : (t.construct key name sym).1.objs[i]? with
    | none => rw [ho] at hs; cases hs
    | some o => rw [ho] at hs; exact hf.nameObj i o n ho (by simpa using hs)
  unfold construct at hr ⊢
  split
  · rename_i herr; simp only [herr, if_true] at hr; cases hr
  · rename_i herr
    simp only [herr, if_false] at hr
    have herr' : t.constructErr key (given name) (given sym) = false := by simpa using herr
    unfold constructErr at herr'
    simp only [Bool.or_eq_false_iff] at herr'
    obtain ⟨_, hown⟩ := herr'
    rw [hn]
    cases hfk : t.find key with
    | some j =>
      rw [hfk] at hr hown
      simp only at hr hown ⊢
      injection hr with hr; subst hr
      obtain ⟨o, ho⟩ := find_some hfk
      rw [ho, hn] at hown
      simp only [Option.bind_some, Bool.or_eq_false_iff] at hown
      unfold adopt
      rw [adoptSym_names]
      exact adoptName_reports ho n (ownClash_false hown.1)
    | none =>
      rw [hfk] at hr
      simp only at hr ⊢
      injection hr with hr; subst hr
      unfold adopt
      rw [adoptSym_names]
      have hidx : ({ t with objs := t.objs ++ [({ key := key } : NObj κ)] } : NTab κ).objs[t.objs.length]? =
          some ({ key := key } : NObj κ) := by
        show (t.objs ++ [({ key := key } : NObj κ)])[t.objs.length]? = _
        simp
      exact adoptName_reports hidx n (Or.inl rfl)

end NTab
end Measured
