/-
  Proofs/Kept.lean — the interning invariants survive EVERY query.  `Good s` = the unit table is
  canonical (`Canon`: one record per key, normal forms) and consistent (`GInv`: every unit's
  dimension is the product of its factors' dimensions, every factor exists, …) — the invariants behind
  C01 and C02, proved so far for histories of unit operations.  Conversions, comparisons and
  arithmetic on quantities intern units too (unprefixed forms, roots and powers for the path search,
  products for the factor planner); here: whatever they are asked and however they end, the table they
  leave is `Good` again, provided the units of the quantities involved exist.

  The planner passes unit ids around in its data structures; instead of tracking that each of them
  exists, the unit operations it uses (`**`, `root`, `*`) are shown to be harmless on an id that does
  not exist (they return `One` or the other operand and leave the table alone), so that only the two
  operations that are NOT harmless there (`unprefixed`, `/`) need their argument to exist — and those
  are applied to the arguments of the query or to results of earlier operations only.
-/
import Proofs.Frame
import Proofs.Flat
import Proofs.BaseInv

namespace Measured
open St

/-- canonical, consistent, and every factor of every unit is a base unit (C13's invariant) -/
def Good (s : St) : Prop := Canon s ∧ GInv s ∧ BaseInv s

theorem unit!_invalid {s : St} {a : UId} (ha : ¬ a < s.units.length) : s.unit! a = default := by
  unfold unit!
  rw [List.getD_eq_getElem?_getD, List.getElem?_eq_none (Nat.le_of_not_lt ha)]
  rfl

theorem newUnit_one {s : St} (hc : Canon s) (d : Dim) : s.newUnit Pfx.identity [(s.one, 1)] d = (s, s.one) := by
  obtain ⟨h1, h2, h3⟩ := hc.oneRec
  have := newUnit_self hc h1 d
  rw [h2, h3] at this
  exact this

theorem powUnit_invalid {s : St} (hc : Canon s) {a : UId} (ha : ¬ a < s.units.length) (n : Int) :
    s.powUnit a n = (s, s.one) := by
  unfold powUnit
  simp only [unit!_invalid ha]
  have h1 : (default : UnitRec).pfx.pow n = Pfx.identity := by
    show Pfx.new 0 (0 * n) = Pfx.identity
    unfold Pfx.new; simp [Pfx.identity]
  have h2 : simplify s.one ((default : UnitRec).factors.map (fun p => (p.1, p.2 * n))) = [(s.one, 1)] := by
    show simplify s.one ([].map _) = _
    simp [simplify]
  rw [h1, h2]
  exact newUnit_one hc _

theorem powUnit_good {s : St} (h : Good s) (a : UId) (n : Int) : Good (s.powUnit a n).1 := by
  by_cases ha : a < s.units.length
  · exact ⟨powUnit_canon h.1 ha n, ⟨powUnit_inv h.2.1.1 ha n, powUnit_reg h.2.1.2 a n⟩, powUnit_baseInv h.2.2 h.1 ha n⟩
  · rw [powUnit_invalid h.1 ha]; exact h

theorem rootUnit_invalid {s : St} (hc : Canon s) {a : UId} (ha : ¬ a < s.units.length) (n : Int) :
    s.rootUnit a n = (s, .ok s.one) := by
  unfold rootUnit
  by_cases hn : (n == 0) = true
  · simp [hn]
  · simp only [hn, Bool.false_eq_true, ↓reduceIte, unit!_invalid ha]
    have hd : (default : UnitRec).dim.root n = .ok [] := by
      show Dim.root [] n = _
      unfold Dim.root; simp [hn]
    have hp : (default : UnitRec).pfx.root n = .ok Pfx.identity := by
      show Pfx.root ⟨0, 0⟩ n = _
      unfold Pfx.root
      simp only [hn, Bool.false_eq_true, ↓reduceIte, Int.zero_emod]
      simp [Pfx.new, Pfx.identity, Int.fdiv]
    have hf : (default : UnitRec).factors = [] := rfl
    simp only [hd, hp, hf, List.any_nil, Bool.false_eq_true, ↓reduceIte, List.map_nil]
    have : simplify s.one [] = [(s.one, 1)] := by simp [simplify]
    rw [this, newUnit_one hc]

theorem rootUnit_good {s : St} (h : Good s) (a : UId) (n : Int) : Good (s.rootUnit a n).1 := by
  by_cases ha : a < s.units.length
  · exact ⟨rootUnit_canon h.1 ha n, ⟨rootUnit_inv h.2.1.1 ha n, rootUnit_reg h.2.1.2 a n⟩, rootUnit_baseInv h.2.2 h.1 ha n⟩
  · rw [rootUnit_invalid h.1 ha]; exact h

/-! ### `*` is harmless when an operand does not exist -/

theorem insertAdd_new {fs : Factors} {k : UId} (e : Int) (h : k ∉ fs.map (·.1)) : insertAdd fs k e = fs ++ [(k, e)] := by
  induction fs with
  | nil => rfl
  | cons f rest ih =>
    obtain ⟨k', e'⟩ := f
    simp only [List.map_cons, List.mem_cons, not_or] at h
    unfold insertAdd
    have : ¬ k' = k := fun h' => h.1 h'.symm
    simp only [this, ↓reduceIte, List.cons_append, List.cons.injEq, true_and]
    exact ih h.2

theorem mergeAdd_append : ∀ (fs acc : Factors), (acc ++ fs).map (·.1) |>.Nodup → mergeAdd acc fs = acc ++ fs := by
  intro fs
  induction fs with
  | nil => intro acc _; simp [mergeAdd]
  | cons f rest ih =>
    intro acc hn
    unfold mergeAdd
    simp only [List.foldl_cons]
    have hk : f.1 ∉ acc.map (·.1) := by
      rw [List.map_append, List.nodup_append] at hn
      intro hin
      exact hn.2.2 _ hin _ (by simp) rfl
    rw [insertAdd_new f.2 hk]
    have := ih (acc ++ [f]) (by simpa [List.append_assoc] using hn)
    unfold mergeAdd at this
    rw [this]; simp

theorem mergeAdd_nil_left {fs : Factors} (h : NodupKeys fs) : mergeAdd [] fs = fs := by
  have := mergeAdd_append fs [] (by simpa [NodupKeys] using h)
  simpa using this

theorem default_unit : (default : UnitRec).pfx = Pfx.identity ∧ (default : UnitRec).factors = [] := ⟨rfl, rfl⟩

theorem mulUnit_invalid {s : St} (hc : Canon s) {a b : UId} (h : ¬ (a < s.units.length ∧ b < s.units.length)) :
    (s.mulUnit a b).1 = s := by
  unfold mulUnit
  simp only
  by_cases ha : a < s.units.length
  · have hb : ¬ b < s.units.length := fun hb => h ⟨ha, hb⟩
    rw [unit!_invalid hb]
    have hp : Pfx.mul (s.unit! a).pfx (default : UnitRec).pfx = .ok (s.unit! a).pfx := by
      unfold Pfx.mul; simp [default_unit.1, Pfx.identity]
    rw [hp]
    simp only
    have hf : mergeAdd (s.unit! a).factors (default : UnitRec).factors = (s.unit! a).factors := by
      rw [default_unit.2]; rfl
    rw [hf, simplify_norm (canon_unit hc ha), newUnit_self hc ha]
  · rw [unit!_invalid ha]
    by_cases hb : b < s.units.length
    · have hbn := canon_pfx hc hb
      have hp : Pfx.mul (default : UnitRec).pfx (s.unit! b).pfx = .ok (s.unit! b).pfx := by
        unfold Pfx.mul
        rw [default_unit.1]
        by_cases h0 : ((s.unit! b).pfx.base == 0) = true
        · simp only [h0, ↓reduceIte]
          have hb0 : (s.unit! b).pfx.base = 0 := by simpa using h0
          have he : (s.unit! b).pfx.exp = 0 := hbn.1 hb0
          have : (s.unit! b).pfx = Pfx.identity := by
            cases hpp : (s.unit! b).pfx with
            | mk bb ee => rw [hpp] at hb0 he; simp only at hb0 he; subst hb0; subst he; rfl
          rw [this]
        · simp only [h0, Bool.false_eq_true, ↓reduceIte]
          simp [Pfx.identity]
      rw [hp]
      simp only
      have hf : mergeAdd (default : UnitRec).factors (s.unit! b).factors = (s.unit! b).factors := by
        rw [default_unit.2]; exact mergeAdd_nil_left (canon_unit hc hb).nodupKeys
      rw [hf, simplify_norm (canon_unit hc hb), newUnit_self hc hb]
    · rw [unit!_invalid hb]
      have hp : Pfx.mul (default : UnitRec).pfx (default : UnitRec).pfx = .ok Pfx.identity := by
        unfold Pfx.mul; simp [default_unit.1, Pfx.identity]
      rw [hp]
      simp only
      have hf : simplify s.one (mergeAdd (default : UnitRec).factors (default : UnitRec).factors) = [(s.one, 1)] := by
        rw [default_unit.2]; simp [mergeAdd, simplify]
      rw [hf, newUnit_one hc]

theorem mulUnit_good {s : St} (h : Good s) (a b : UId) : Good (s.mulUnit a b).1 := by
  by_cases hv : a < s.units.length ∧ b < s.units.length
  · exact ⟨mulUnit_canon h.1 hv.1 hv.2, ⟨mulUnit_inv h.2.1.1 hv.1 hv.2, mulUnit_reg h.2.1.2 a b⟩, mulUnit_baseInv h.2.2 h.1 hv.1 hv.2⟩
  · rw [mulUnit_invalid h.1 hv]; exact h

theorem unprefixedUnit_good {s : St} (h : Good s) {a : UId} (ha : a < s.units.length) : Good (s.unprefixedUnit a).1 :=
  ⟨unprefixedUnit_canon h.1 ha, ⟨unprefixedUnit_inv h.2.1.1 ha, unprefixedUnit_reg h.2.1.2 a⟩, unprefixedUnit_baseInv h.2.2 ha⟩

theorem divUnit_good {s : St} (h : Good s) {a b : UId} (ha : a < s.units.length) (hb : b < s.units.length) :
    Good (s.divUnit a b).1 :=
  ⟨divUnit_canon h.1 ha hb, ⟨divUnit_inv h.2.1.1 ha hb, divUnit_reg h.2.1.2 a b⟩, divUnit_baseInv h.2.2 h.1 ha hb⟩

/-! ### `Kept`: the closure of "leaves a good table good" under the constructs of the planner -/

structure Kept {β} (m : CM Rat β) : Prop where
  keep : ∀ c : Conv Rat, Good c.st → Good (CM.exec m c).2.st

theorem kept_pure {β} (a : β) : Kept (pure a : CM Rat β) := ⟨fun _ h => h⟩
theorem kept_throw {β} (e : Exc) : Kept (throw e : CM Rat β) := ⟨fun _ h => h⟩
theorem kept_getSt : Kept (getSt : CM Rat St) := ⟨fun _ h => h⟩
theorem kept_getThe : Kept (getThe (Conv Rat) : CM Rat (Conv Rat)) := ⟨fun c h => by rw [exec_getThe']; exact h⟩
theorem kept_liftE {β} (r : Except Exc β) : Kept (liftE r : CM Rat β) := ⟨fun c h => by rw [exec_liftE]; exact h⟩

theorem kept_liftSt {β} (f : St → St × β) (hf : ∀ s, Good s → Good (f s).1) : Kept (liftSt f : CM Rat β) :=
  ⟨fun c h => by rw [exec_liftSt]; exact hf c.st h⟩

theorem kept_liftStE {β} (f : St → St × Except Exc β) (hf : ∀ s, Good s → Good (f s).1) :
    Kept (liftStE f : CM Rat β) := ⟨fun c h => by rw [exec_liftStE]; exact hf c.st h⟩

theorem kept_bind {β γ} {m : CM Rat β} {f : β → CM Rat γ} (hm : Kept m) (hf : ∀ a, Kept (f a)) : Kept (m >>= f) := by
  constructor
  intro c hg
  rw [exec_bind]
  have h1 := hm.keep c hg
  cases h : CM.exec m c with
  | mk r c' =>
    rw [h] at h1
    cases r with
    | ok a => exact (hf a).keep c' h1
    | error e => exact h1

theorem kept_tryCatch {β} {m : CM Rat β} {h : Exc → CM Rat β} (hm : Kept m) (hh : ∀ e, Kept (h e)) :
    Kept (tryCatch m h) := by
  constructor
  intro c hg
  rw [exec_tryCatch]
  have h1 := hm.keep c hg
  cases hx : CM.exec m c with
  | mk r c' =>
    rw [hx] at h1
    cases r with
    | ok a => exact h1
    | error e => exact (hh e).keep c' h1

theorem kept_cassert (b : Bool) : Kept (cassert b : CM Rat Unit) := by
  unfold cassert
  apply kept_bind kept_getThe
  intro c
  split
  · exact kept_throw _
  · exact kept_pure _

theorem kept_forIn {β γ} (l : List γ) (f : γ → β → CM Rat (ForInStep β)) (hf : ∀ x b, Kept (f x b)) :
    ∀ init : β, Kept (forIn l init f) := by
  induction l with
  | nil => intro init; simp only [List.forIn_nil]; exact kept_pure _
  | cons x rest ih =>
    intro init
    simp only [List.forIn_cons]
    apply kept_bind (hf x init)
    intro r
    cases r with
    | done b => exact kept_pure _
    | yield b => exact ih b

theorem kept_foldlM {β γ} (f : β → γ → CM Rat β) (hf : ∀ b x, Kept (f b x)) :
    ∀ (l : List γ) (init : β), Kept (l.foldlM f init) := by
  intro l
  induction l with
  | nil => intro init; simp only [List.foldlM_nil]; exact kept_pure _
  | cons x rest ih =>
    intro init
    simp only [List.foldlM_cons]
    exact kept_bind (hf init x) (fun b => ih b)

theorem kept_mapM {β γ} (f : γ → CM Rat β) (hf : ∀ x, Kept (f x)) : ∀ l : List γ, Kept (l.mapM f) := by
  intro l
  induction l with
  | nil => simp only [List.mapM_nil]; exact kept_pure _
  | cons x rest ih =>
    simp only [List.mapM_cons]
    exact kept_bind (hf x) (fun a => kept_bind ih (fun _ => kept_pure _))

theorem kept_powHop (h : Hop Rat) (e : Int) : Kept (powHop h e) := by
  unfold powHop
  exact kept_bind (kept_liftE _) (fun _ => kept_bind (kept_liftE _) (fun _ =>
    kept_bind (kept_liftSt _ (fun s hs => powUnit_good hs _ _)) (fun _ => kept_pure _)))

theorem kept_mulUnits : ∀ l : List UId, Kept (mulUnits (α := Rat) l) := by
  intro l
  cases l with
  | nil => exact kept_throw _
  | cons u rest =>
    unfold mulUnits
    exact kept_foldlM _ (fun acc v => kept_liftStE _ (fun s hs => mulUnit_good hs _ _)) rest u

macro "kept_step" : tactic => `(tactic| first
  | with_reducible exact kept_pure _ | with_reducible exact kept_throw _ | with_reducible exact kept_getSt
  | with_reducible exact kept_getThe | with_reducible exact kept_liftE _
  | with_reducible exact kept_cassert _ | with_reducible exact kept_powHop _ _ | with_reducible exact kept_mulUnits _
  | with_reducible exact kept_liftSt _ (fun s hs => powUnit_good hs _ _)
  | with_reducible exact kept_liftStE _ (fun s hs => rootUnit_good hs _ _)
  | with_reducible exact kept_liftStE _ (fun s hs => mulUnit_good hs _ _)
  | assumption
  | with_reducible apply kept_forIn
  | with_reducible apply kept_foldlM
  | with_reducible apply kept_mapM
  | with_reducible apply kept_tryCatch
  | with_reducible apply kept_bind
  | intro _
  | split
  | dsimp only)

macro "kept" : tactic => `(tactic| repeat (any_goals kept_step))

syntax "kept_using" "[" term,* "]" : tactic
macro_rules
  | `(tactic| kept_using [$ts,*]) => `(tactic| repeat (any_goals (first $[| with_reducible exact $ts]* | kept_step)))

theorem kept_reduceDimension (a b : UId) : Kept (reduceDimension (α := Rat) a b) := by
  unfold reduceDimension
  kept

theorem kept_pathLoop {recur : UId → UId → List UId → CM Rat (List (Hop Rat) × List UId)}
    (hrec : ∀ a b v, Kept (recur a b v)) (start' stop' : UId) (e : Int) :
    ∀ (items : List (UId × Mag Rat)) (best : List (Hop Rat)) (visited : List UId),
      Kept (pathLoop recur start' stop' e items best visited) := by
  intro items
  induction items with
  | nil => intro best visited; unfold pathLoop; exact kept_pure _
  | cons it rest ih =>
    intro best visited
    obtain ⟨mid, scale⟩ := it
    unfold pathLoop
    kept_using [hrec _ _ _, ih _ _]

theorem kept_findPathRec : ∀ (fuel : Nat) (a b : UId) (v : List UId), Kept (findPathRec (α := Rat) fuel a b v) := by
  intro fuel
  induction fuel with
  | zero => intro a b v; unfold findPathRec; exact kept_throw _
  | succ fuel ih =>
    intro a b v
    unfold findPathRec
    kept_using [kept_reduceDimension _ _, kept_pathLoop ih _ _ _ _ _ _]

theorem kept_findPath (a b : UId) : Kept (findPath (α := Rat) a b) := by
  unfold findPath
  kept_using [kept_findPathRec _ _ _ _]

theorem kept_inlinePaths (plan : List (Rough Rat)) : Kept (inlinePaths plan) := by
  unfold inlinePaths
  kept_using [kept_findPath _ _]

theorem kept_replaceFactors_outer (one : UId) : ∀ (fuel : Nat) (factors : Splat) (plan : List (Rough Rat)),
    Kept (replaceFactors.outer (α := Rat) one fuel factors plan) := by
  intro fuel
  induction fuel with
  | zero => intro factors plan; unfold replaceFactors.outer; exact kept_throw _
  | succ fuel ih =>
    intro factors plan
    unfold replaceFactors.outer
    kept_using [ih _ _]

theorem kept_replaceFactors (factors : Splat) : Kept (replaceFactors (α := Rat) factors) := by
  unfold replaceFactors
  kept_using [kept_replaceFactors_outer _ _ _ _]

theorem kept_matchStep (st : Splat × Splat × List (Rough Rat)) (d : Dim) : Kept (matchStep st d) := by
  unfold matchStep
  kept

theorem kept_matchFactors (a b : Splat) : Kept (matchFactors (α := Rat) a b) := by
  unfold matchFactors
  kept_using [kept_matchStep _ _]

/-! ### the operations that need their argument to exist -/

theorem exec_quantifyUnit (u : UId) (c : Conv Rat) :
    CM.exec (quantifyUnit u) c =
      (.ok { mag := Pfx.value (c.st.unit! u).pfx, unit := (c.st.unprefixedUnit u).2 },
       { c with st := (c.st.unprefixedUnit u).1 }) := by
  unfold quantifyUnit
  rw [exec_bind, exec_getSt]
  simp only
  rw [exec_bind, exec_liftSt]
  simp only [exec_pure]

theorem good_planConversion {c : Conv Rat} (hg : Good c.st) (start : UId) {stop : UId} (ht : stop < c.st.units.length) :
    Good (CM.exec (planConversion start stop) c).2.st := by
  unfold planConversion
  rw [exec_bind, exec_getSt]
  simp only
  rw [exec_bind, exec_quantifyUnit]
  simp only
  refine Kept.keep ?_ _ (unprefixedUnit_good hg ht)
  kept_using [kept_findPath _ _, kept_inlinePaths _, kept_replaceFactors _, kept_matchFactors _ _]

/-- **Every conversion between existing units — returning or raising, through any branch of the planner — leaves
    a canonical, consistent unit table.** -/
theorem good_convert {c : Conv Rat} (hg : Good c.st) {q : Qty Rat} {t : UId}
    (hq : q.unit < c.st.units.length) (ht : t < c.st.units.length) :
    Good (CM.exec (convert q t) c).2.st := by
  unfold convert
  rw [exec_bind, exec_getSt]
  simp only
  split
  · rw [exec_bind, exec_throw]; exact hg
  · rw [exec_bind, exec_unprefixedQty]
    simp only
    have h1 : Good ({ c with st := (c.st.unprefixedUnit q.unit).1 } : Conv Rat).st := unprefixedUnit_good hg hq
    have ht1 : t < ({ c with st := (c.st.unprefixedUnit q.unit).1 } : Conv Rat).st.units.length :=
      Nat.lt_of_lt_of_le ht (unprefixedUnit_ext _ _).len
    have h2 := good_planConversion h1 q.unit ht1
    rw [exec_bind]
    cases hp : CM.exec (planConversion q.unit t) { c with st := (c.st.unprefixedUnit q.unit).1 } with
    | mk r c2 =>
      rw [hp] at h2
      cases r with
      | error e => exact h2
      | ok plan =>
        simp only
        rw [exec_bind, exec_liftE]
        cases applyPlan (Mag.mul (Pfx.value (c.st.unit! q.unit).pfx) q.mag) plan with
        | error e => exact h2
        | ok m => exact h2

/-! ### comparisons -/

theorem good_eqCore {c : Conv Rat} (hg : Good c.st) {a b : Qty Rat}
    (ha : a.unit < c.st.units.length) (hb : b.unit < c.st.units.length) :
    Good (CM.exec (Qty.eqCore a b) c).2.st := by
  unfold Qty.eqCore
  rw [exec_bind, exec_getSt]
  simp only
  split
  · exact hg
  · rw [exec_bind, exec_unprefixedQty]
    simp only
    rw [exec_bind, exec_unprefixedQty]
    simp only
    -- the two states after the `unprefixed` internings
    have e1 := unprefixedUnit_ext c.st a.unit
    have g1 : Good (c.st.unprefixedUnit a.unit).1 := unprefixedUnit_good hg ha
    have hb1 : b.unit < (c.st.unprefixedUnit a.unit).1.units.length := Nat.lt_of_lt_of_le hb e1.len
    have e2 := unprefixedUnit_ext (c.st.unprefixedUnit a.unit).1 b.unit
    have g2 : Good ((c.st.unprefixedUnit a.unit).1.unprefixedUnit b.unit).1 := unprefixedUnit_good g1 hb1
    have hthis : (c.st.unprefixedUnit a.unit).2 < ((c.st.unprefixedUnit a.unit).1.unprefixedUnit b.unit).1.units.length :=
      Nat.lt_of_lt_of_le (unprefixedUnit_lt _ _) e2.len
    have hother := unprefixedUnit_lt (c.st.unprefixedUnit a.unit).1 b.unit
    split
    · exact g2
    · rw [exec_tryCatch, exec_bind]
      have g3 := good_convert (c := { c with st := ((c.st.unprefixedUnit a.unit).1.unprefixedUnit b.unit).1 }) g2
        (q := { mag := Mag.mul (Pfx.value (c.st.unit! a.unit).pfx) a.mag, unit := (c.st.unprefixedUnit a.unit).2 })
        (t := ((c.st.unprefixedUnit a.unit).1.unprefixedUnit b.unit).2) hthis hother
      have f3 := (framed_convert
        { mag := Mag.mul (Pfx.value (c.st.unit! a.unit).pfx) a.mag, unit := (c.st.unprefixedUnit a.unit).2 }
        ((c.st.unprefixedUnit a.unit).1.unprefixedUnit b.unit).2).frame
        { c with st := ((c.st.unprefixedUnit a.unit).1.unprefixedUnit b.unit).1 }
      cases hconv : CM.exec (convert
          { mag := Mag.mul (Pfx.value (c.st.unit! a.unit).pfx) a.mag, unit := (c.st.unprefixedUnit a.unit).2 }
          ((c.st.unprefixedUnit a.unit).1.unprefixedUnit b.unit).2)
          { c with st := ((c.st.unprefixedUnit a.unit).1.unprefixedUnit b.unit).1 } with
      | mk r c3 =>
        rw [hconv] at g3 f3
        cases r with
        | error e =>
          simp only
          split
          · exact g3
          · exact g3
        | ok cq =>
          simp only
          have hcu : cq.unit = ((c.st.unprefixedUnit a.unit).1.unprefixedUnit b.unit).2 := convert_result_unit hconv
          have hcq3 : cq.unit < c3.st.units.length := by rw [hcu]; exact f3.lt hother
          rw [exec_bind, exec_unprefixedQty]
          simp only
          have g4 : Good (c3.st.unprefixedUnit cq.unit).1 := unprefixedUnit_good g3 hcq3
          have ho4 : ((c.st.unprefixedUnit a.unit).1.unprefixedUnit b.unit).2 < (c3.st.unprefixedUnit cq.unit).1.units.length :=
            Nat.lt_of_lt_of_le (f3.lt hother) (unprefixedUnit_ext _ _).len
          rw [exec_bind, exec_unprefixedQty]
          simp only [exec_pure]
          exact unprefixedUnit_good g4 ho4

theorem good_ltCore {c : Conv Rat} (hg : Good c.st) {a b : Qty Rat}
    (ha : a.unit < c.st.units.length) (hb : b.unit < c.st.units.length) :
    Good (CM.exec (Qty.ltCore a b) c).2.st := by
  unfold Qty.ltCore
  rw [exec_bind, exec_getSt]
  simp only
  split
  · exact hg
  · rw [exec_bind, exec_unprefixedQty]
    simp only
    rw [exec_bind, exec_unprefixedQty]
    simp only
    -- the two states after the `unprefixed` internings
    have e1 := unprefixedUnit_ext c.st a.unit
    have g1 : Good (c.st.unprefixedUnit a.unit).1 := unprefixedUnit_good hg ha
    have hb1 : b.unit < (c.st.unprefixedUnit a.unit).1.units.length := Nat.lt_of_lt_of_le hb e1.len
    have e2 := unprefixedUnit_ext (c.st.unprefixedUnit a.unit).1 b.unit
    have g2 : Good ((c.st.unprefixedUnit a.unit).1.unprefixedUnit b.unit).1 := unprefixedUnit_good g1 hb1
    have hthis : (c.st.unprefixedUnit a.unit).2 < ((c.st.unprefixedUnit a.unit).1.unprefixedUnit b.unit).1.units.length :=
      Nat.lt_of_lt_of_le (unprefixedUnit_lt _ _) e2.len
    have hother := unprefixedUnit_lt (c.st.unprefixedUnit a.unit).1 b.unit
    split
    · exact g2
    · rw [exec_tryCatch, exec_bind]
      have g3 := good_convert (c := { c with st := ((c.st.unprefixedUnit a.unit).1.unprefixedUnit b.unit).1 }) g2
        (q := { mag := Mag.mul (Pfx.value (c.st.unit! a.unit).pfx) a.mag, unit := (c.st.unprefixedUnit a.unit).2 })
        (t := ((c.st.unprefixedUnit a.unit).1.unprefixedUnit b.unit).2) hthis hother
      have f3 := (framed_convert
        { mag := Mag.mul (Pfx.value (c.st.unit! a.unit).pfx) a.mag, unit := (c.st.unprefixedUnit a.unit).2 }
        ((c.st.unprefixedUnit a.unit).1.unprefixedUnit b.unit).2).frame
        { c with st := ((c.st.unprefixedUnit a.unit).1.unprefixedUnit b.unit).1 }
      cases hconv : CM.exec (convert
          { mag := Mag.mul (Pfx.value (c.st.unit! a.unit).pfx) a.mag, unit := (c.st.unprefixedUnit a.unit).2 }
          ((c.st.unprefixedUnit a.unit).1.unprefixedUnit b.unit).2)
          { c with st := ((c.st.unprefixedUnit a.unit).1.unprefixedUnit b.unit).1 } with
      | mk r c3 =>
        rw [hconv] at g3 f3
        cases r with
        | error e =>
          simp only
          split
          · exact g3
          · exact g3
        | ok cq =>
          simp only
          have hcu : cq.unit = ((c.st.unprefixedUnit a.unit).1.unprefixedUnit b.unit).2 := convert_result_unit hconv
          have hcq3 : cq.unit < c3.st.units.length := by rw [hcu]; exact f3.lt hother
          rw [exec_bind, exec_unprefixedQty]
          simp only
          have g4 : Good (c3.st.unprefixedUnit cq.unit).1 := unprefixedUnit_good g3 hcq3
          have ho4 : ((c.st.unprefixedUnit a.unit).1.unprefixedUnit b.unit).2 < (c3.st.unprefixedUnit cq.unit).1.units.length :=
            Nat.lt_of_lt_of_le (f3.lt hother) (unprefixedUnit_ext _ _).len
          rw [exec_bind, exec_unprefixedQty]
          simp only [exec_pure]
          exact unprefixedUnit_good g4 ho4

/-! ### the comparison operators and arithmetic: good table and existing operands, before and after -/

/-- the table is good and both operands' units exist -/
def PV (a b : Qty Rat) (c : Conv Rat) : Prop :=
  Good c.st ∧ a.unit < c.st.units.length ∧ b.unit < c.st.units.length

structure KeptV (a b : Qty Rat) {β} (m : CM Rat β) : Prop where
  keep : ∀ c : Conv Rat, PV a b c → PV a b (CM.exec m c).2

theorem keptV_pure (a b : Qty Rat) {β} (x : β) : KeptV a b (pure x : CM Rat β) := ⟨fun _ h => h⟩
theorem keptV_throw (a b : Qty Rat) {β} (e : Exc) : KeptV a b (throw e : CM Rat β) := ⟨fun _ h => h⟩

theorem keptV_bind {a b : Qty Rat} {β γ} {m : CM Rat β} {f : β → CM Rat γ} (hm : KeptV a b m) (hf : ∀ x, KeptV a b (f x)) :
    KeptV a b (m >>= f) := by
  constructor
  intro c hp
  rw [exec_bind]
  have h1 := hm.keep c hp
  cases h : CM.exec m c with
  | mk r c' =>
    rw [h] at h1
    cases r with
    | ok x => exact (hf x).keep c' h1
    | error e => exact h1

theorem keptV_of {a b : Qty Rat} {β} {m : CM Rat β} (hf : Framed m)
    (hg : ∀ c, PV a b c → Good (CM.exec m c).2.st) : KeptV a b m :=
  ⟨fun c hp => ⟨hg c hp, (hf.frame c).lt hp.2.1, (hf.frame c).lt hp.2.2⟩⟩

theorem keptV_eqCore (a b : Qty Rat) : KeptV a b (Qty.eqCore a b) :=
  keptV_of (framed_eqCore a b) (fun _ hp => good_eqCore hp.1 hp.2.1 hp.2.2)
theorem keptV_eqCore' (a b : Qty Rat) : KeptV a b (Qty.eqCore b a) :=
  keptV_of (framed_eqCore b a) (fun _ hp => good_eqCore hp.1 hp.2.2 hp.2.1)
theorem keptV_ltCore (a b : Qty Rat) : KeptV a b (Qty.ltCore a b) :=
  keptV_of (framed_ltCore a b) (fun _ hp => good_ltCore hp.1 hp.2.1 hp.2.2)
theorem keptV_ltCore' (a b : Qty Rat) : KeptV a b (Qty.ltCore b a) :=
  keptV_of (framed_ltCore b a) (fun _ hp => good_ltCore hp.1 hp.2.2 hp.2.1)

theorem KeptV.swap {a b : Qty Rat} {β} {m : CM Rat β} (h : KeptV a b m) : KeptV b a m :=
  ⟨fun c hp => by
    have := h.keep c ⟨hp.1, hp.2.2, hp.2.1⟩
    exact ⟨this.1, this.2.2, this.2.1⟩⟩

macro "keptV_step" : tactic => `(tactic| first
  | with_reducible exact keptV_pure _ _ _ | with_reducible exact keptV_throw _ _ _
  | with_reducible apply keptV_bind | intro _ | split | dsimp only)

syntax "keptV_using" "[" term,* "]" : tactic
macro_rules
  | `(tactic| keptV_using [$ts,*]) => `(tactic| repeat (any_goals (first $[| with_reducible exact $ts]* | keptV_step)))

theorem keptV_eq (a b : Qty Rat) : KeptV a b (Qty.eq a b) := by
  unfold Qty.eq; keptV_using [keptV_eqCore a b, keptV_eqCore' a b]
theorem keptV_ne (a b : Qty Rat) : KeptV a b (Qty.ne a b) := by
  unfold Qty.ne; keptV_using [keptV_eqCore a b, keptV_eqCore' a b]
theorem keptV_gtCore (a b : Qty Rat) : KeptV a b (Qty.gtCore a b) := by
  unfold Qty.gtCore; keptV_using [keptV_ltCore a b, keptV_ne a b]
theorem keptV_leCore (a b : Qty Rat) : KeptV a b (Qty.leCore a b) := by
  unfold Qty.leCore; keptV_using [keptV_ltCore a b, keptV_eq a b]
theorem keptV_geCore (a b : Qty Rat) : KeptV a b (Qty.geCore a b) := by
  unfold Qty.geCore; keptV_using [keptV_ltCore a b]
theorem keptV_lt (a b : Qty Rat) : KeptV a b (Qty.lt a b) := by
  unfold Qty.lt; keptV_using [keptV_ltCore a b, (keptV_gtCore b a).swap]
theorem keptV_gt (a b : Qty Rat) : KeptV a b (Qty.gt a b) := by
  unfold Qty.gt; keptV_using [keptV_gtCore a b, keptV_ltCore' a b]
theorem keptV_le (a b : Qty Rat) : KeptV a b (Qty.le a b) := by
  unfold Qty.le; keptV_using [keptV_leCore a b, (keptV_geCore b a).swap]
theorem keptV_ge (a b : Qty Rat) : KeptV a b (Qty.ge a b) := by
  unfold Qty.ge; keptV_using [keptV_geCore a b, (keptV_leCore b a).swap]

theorem keptV_add (a b : Qty Rat) : KeptV a b (Qty.add a b) :=
  keptV_of (framed_add a b) (fun c hp => by
    unfold Qty.add
    rw [exec_bind]
    have h := good_convert hp.1 (q := b) (t := a.unit) hp.2.2 hp.2.1
    cases hx : CM.exec (convert b a.unit) c with
    | mk r c' => rw [hx] at h; cases r <;> exact h)

theorem keptV_sub (a b : Qty Rat) : KeptV a b (Qty.sub a b) :=
  keptV_of (framed_sub a b) (fun c hp => by
    unfold Qty.sub
    rw [exec_bind]
    have h := good_convert hp.1 (q := b) (t := a.unit) hp.2.2 hp.2.1
    cases hx : CM.exec (convert b a.unit) c with
    | mk r c' => rw [hx] at h; cases r <;> exact h)

theorem keptV_mul (a b : Qty Rat) : KeptV a b (Qty.mul a b) :=
  keptV_of (framed_mul a b) (fun c hp => by
    refine Kept.keep ?_ c hp.1
    unfold Qty.mul; kept)

theorem keptV_div (a b : Qty Rat) : KeptV a b (Qty.div a b) :=
  keptV_of (framed_div a b) (fun c hp => by
    unfold Qty.div
    rw [exec_bind, exec_liftE]
    cases Mag.div a.mag b.mag with
    | error e => exact hp.1
    | ok m =>
      simp only
      rw [exec_bind, exec_liftStE]
      have := divUnit_good hp.1 hp.2.1 hp.2.2
      cases (c.st.divUnit a.unit b.unit).2 <;> exact this)

theorem kept_qpow (a : Qty Rat) (n : Int) : Kept (Qty.pow a n) := by unfold Qty.pow; kept
theorem kept_qroot (a : Qty Rat) (n : Int) : Kept (Qty.root a n) := by unfold Qty.root; kept

/-! ### histories of queries -/

/-- the operand units of a query exist -/
def QOp.ok (c : Conv Rat) : QOp → Prop
  | .convert q t => q.unit < c.st.units.length ∧ t < c.st.units.length
  | .add a b | .sub a b | .mul a b | .div a b | .eq a b | .ne a b | .lt a b | .le a b | .gt a b | .ge a b =>
      a.unit < c.st.units.length ∧ b.unit < c.st.units.length
  | .pow _ _ | .root _ _ | .units _ => True

theorem QOp.after_good (c : Conv Rat) (hg : Good c.st) (o : QOp) (ho : o.ok c) : Good (o.after c).st := by
  cases o with
  | convert q t => exact good_convert hg ho.1 ho.2
  | add a b => exact ((keptV_add a b).keep c ⟨hg, ho.1, ho.2⟩).1
  | sub a b => exact ((keptV_sub a b).keep c ⟨hg, ho.1, ho.2⟩).1
  | mul a b => exact ((keptV_mul a b).keep c ⟨hg, ho.1, ho.2⟩).1
  | div a b => exact ((keptV_div a b).keep c ⟨hg, ho.1, ho.2⟩).1
  | pow a n => exact (kept_qpow a n).keep c hg
  | root a n => exact (kept_qroot a n).keep c hg
  | eq a b => exact ((keptV_eq a b).keep c ⟨hg, ho.1, ho.2⟩).1
  | ne a b => exact ((keptV_ne a b).keep c ⟨hg, ho.1, ho.2⟩).1
  | lt a b => exact ((keptV_lt a b).keep c ⟨hg, ho.1, ho.2⟩).1
  | le a b => exact ((keptV_le a b).keep c ⟨hg, ho.1, ho.2⟩).1
  | gt a b => exact ((keptV_gt a b).keep c ⟨hg, ho.1, ho.2⟩).1
  | ge a b => exact ((keptV_ge a b).keep c ⟨hg, ho.1, ho.2⟩).1
  | units ops => exact ⟨run_canon hg.2.1 hg.1 ops, run_ginv hg.2.1 ops, run_baseInv hg.2.1 hg.1 hg.2.2 ops⟩

/-- every query of the history is asked about units that exist when it is asked -/
def ValidHistory : Conv Rat → List QOp → Prop
  | _, [] => True
  | c, o :: rest => o.ok c ∧ ValidHistory (o.after c) rest

/-- **The interning invariants survive every history of queries**: after any sequence of conversions, comparisons,
    sums, differences, products, quotients, powers, roots and unit operations — each asked about units that exist
    at that moment, each ending however it ends, value or exception, through any branch of the factor planner —
    the unit table is canonical (`Canon`: C02's one-object-per-denotation), consistent (`GInv`: C01's
    dimension = product of the factors' dimensions, and the registries' shape) and every factor is a base unit
    (`BaseInv`: what C13's rendering theorem needs). -/
theorem queries_good : ∀ (ops : List QOp) (c : Conv Rat), Good c.st → ValidHistory c ops →
    Good (ops.foldl QOp.after c).st := by
  intro ops
  induction ops with
  | nil => intro c hg _; exact hg
  | cons o rest ih =>
    intro c hg hv
    exact ih _ (QOp.after_good c hg o hv.1) hv.2

theorem QOp.ok_mono {c c' : Conv Rat} (hf : CFrame c c') {o : QOp} (h : o.ok c) : o.ok c' := by
  cases o <;> first | exact trivial | exact ⟨hf.lt h.1, hf.lt h.2⟩

/-- queries about units that exist at the start are valid at every later moment (nothing is ever removed) -/
theorem validHistory_of_initial : ∀ (ops : List QOp) (c : Conv Rat), (∀ o ∈ ops, o.ok c) → ValidHistory c ops := by
  intro ops
  induction ops with
  | nil => intro c _; exact trivial
  | cons o rest ih =>
    intro c h
    refine ⟨h o List.mem_cons_self, ih _ ?_⟩
    intro o' ho'
    exact QOp.ok_mono (QOp.after_frame c o) (h o' (List.mem_cons_of_mem _ ho'))

/-- in particular: any history of queries about units that exist in a good state keeps the table good -/
theorem queries_good_of_initial (ops : List QOp) (c : Conv Rat) (hg : Good c.st) (h : ∀ o ∈ ops, o.ok c) :
    Good (ops.foldl QOp.after c).st :=
  queries_good ops c hg (validHistory_of_initial ops c h)

end Measured
