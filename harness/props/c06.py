"""C06 — arithmetic and comparison do not depend on the units operands are written in.

Generator: pairs of quantities; for + - == < the two are of one dimension and written in
different convertible units and prefixes (including mixed SI / IEC for information units);
for * / ** any dimensions.  Each operation is performed on the operands as written.
Oracle (implementation only): the SI value of every result equals the same operation on the
SI values of the operands (exact sizes; 1e-12 for * / **, 1e-5 per degree where a conversion
of shipped units is involved); == and < agree with the SI values away from ties (4e-9).
"""
import math
from fractions import Fraction as F

from measured import Quantity, Unit

from sizes import degree
from .convcommon import ConvContext, classify, ftok

LEVEL_TEXT = ("Lean: for an ARBITRARY assignment sigma of non-zero sizes to the base units, the SI value (magnitude x prefix value x "
              "prod sigma(base)^exponent) of a*b, a/b and a**n is the product, quotient and power of the operands' SI values, in "
              "every state with a canonical intern table - whether the result unit was found or freshly interned (si_mul, si_div, "
              "si_pow over Proofs/SizeOf: sizes are multiplicative through mergeAdd/simplify/newUnit). a+b and a-b return the left "
              "unit with magnitude a +- (b converted to a's unit) (add_value, sub_value), so their SI value is the sum/difference "
              "exactly when that conversion is sound (si_add); for operands in one unit == and < are == and < of the SI values "
              "(same_unit_order, beq_iff, lt_iff). The conversion step's soundness is C04's (partial). Tied to the code by "
              "differential execution and an exact SI-value oracle. For operands whose conversion is settled directly (or that share the unprefixed unit) the hypothesis is discharged "
              "for the model of the real operators, in every state reached by unit operations and size-consistent declarations: "
              "a+b and a-b have the sum/difference of the SI values (add_direct_exact, sub_direct_exact), == and < decide by SI "
              "value (eqCore_direct_iff, ltCore_direct_iff).")
LEVEL_NOTE = ("+ - == < inherit C04's known findings through the implicit conversion of one operand. Exact arithmetic in the model; "
              "float ties are avoided by the oracle (4e-9) as the property allows.")
TECHNIQUE = "Lean 4 proofs (SI value is a homomorphism for * / **, for every size assignment; additive ops relative to the conversion) + differential correspondence + exact SI-value oracle"

THEOREMS = [
    "Measured.C06.si_mul", "Measured.C06.si_div", "Measured.C06.si_pow", "Measured.C06.add_value",
    "Measured.C06.sub_value", "Measured.C06.si_add", "Measured.C06.same_unit_order",
    "Measured.C06.beq_iff", "Measured.C06.lt_iff",
    "Measured.mulUnit_size", "Measured.divUnit_size", "Measured.powUnit_size",
    "Measured.C06.add_direct_exact", "Measured.C06.sub_direct_exact",
    "Measured.eqCore_direct_iff", "Measured.ltCore_direct_iff",
    "Measured.C06.add_simple", "Measured.C06.sub_simple", "Measured.eqCore_simple_iff", "Measured.ltCore_simple_iff",
    "Measured.Obligations.FlatTemp.temperature_sub", "Measured.Obligations.FlatTemp.temperature_route_independent",
]
LEAN_TARGETS = ["Props.C06", "Props.C12Direct", "Obligations.C02", "Obligations.C10Flat"]
QUICK = {"chunks": 4, "ops": 1500}
THOROUGH = {"chunks": 16, "ops": 9000}
RTOL = 1e-11
RULE = ("(quantity a, quantity b, operator) with b written in a unit/prefix different from a's; non-trivial = the two "
        "units differ; distinct by (unit of a, unit of b, operator)")


class Context(ConvContext):
    pass


def si(ctx, q):
    s = ctx.sizes.unit_size(q.unit)
    if s is None:
        return None
    return F(q.magnitude) * s


def close(a, b, tol):
    if a == b:
        return True
    return abs(a - b) <= tol * max(abs(a), abs(b))


def oracle(ctx, line, res):
    f = line.split("\t")
    if f[0] != "X" or f[1] not in ("add", "sub", "mul", "div", "pow", "eq", "lt", "le", "gt", "ge", "ne"):
        return []
    try:
        args = [ctx.sess.arg(t) for t in f[2:]]
    except Exception:  # noqa: BLE001
        return []
    op = f[1]
    fails = []
    if op == "pow":
        a, n = args
        if not isinstance(a, Quantity) or not res.startswith("ok\tq"):
            return []
        ctx.oracle_checks += 1
        r = ctx.sess.qs[-1]
        sa, sr = si(ctx, a), si(ctx, r)
        if sa is not None and sr is not None and (sa != 0 or n >= 0):
            if not close(sr, sa ** n, F(1, 10**11)):
                fails.append({"kind": "si-mismatch", "opname": "pow", "a": str(a), "n": n,
                              "got": float(sr), "want": float(sa ** n)})
        return fails
    if len(args) != 2 or not all(isinstance(x, Quantity) for x in args):
        return []
    a, b = args
    if a.unit.dimension is a.unit.dimension and a.unit.dimension is b.unit.dimension and op in ("eq", "ne", "lt", "le", "gt", "ge"):
        from .c12 import scale_of, si as kelvin_si
        if scale_of(a.unit) is not None and scale_of(b.unit) is not None:
            ka, kb = kelvin_si(ctx, a), kelvin_si(ctx, b)
            if ka is not None and kb is not None and abs(ka - kb) > F(1, 10**7) * max(abs(ka), abs(kb), F(300)):
                want = {"eq": ka == kb, "ne": ka != kb, "lt": ka < kb, "le": ka <= kb, "gt": ka > kb, "ge": ka >= kb}[op]
                exp = "ok\tb\t%s" % ("true" if want else "false")
                if res != exp:
                    fails.append({"kind": "scale-comparison-wrong", "opname": op, "a": str(a), "b": str(b), "got": res, "want": exp})
            ctx.oracle_checks += 1
            return fails
    if op in ("add", "sub") and a.unit.dimension is b.unit.dimension:
        from .c12 import scale_of, si as kelvin_si, TO_K
        sca, scb = scale_of(a.unit), scale_of(b.unit)
        if sca is not None and scb is not None:
            # sums and differences on temperature scales: replacing b by the equal quantity written in a's unit
            # must not change the result, i.e. a +- b is a.magnitude +- (b expressed in a's unit), offsets and
            # prefixes included (what an absolute sum MEANS is not judged)
            ctx.oracle_checks += 1
            if not res.startswith("ok\tq"):
                if res[4:] not in ("ConversionNotFound", "TypeError"):
                    fails.append({"kind": "conversion-raises", "error": res[4:], "class": None, "opname": op,
                                  "from": str(b.unit), "to": str(a.unit)})
                return fails
            deg, zero = TO_K[sca[0]]
            pv = F(sca[1].base) ** sca[1].exponent if sca[1].base else F(1)
            b_in_a = (kelvin_si(ctx, b) - zero) / deg / pv
            want = F(a.magnitude) + b_in_a if op == "add" else F(a.magnitude) - b_in_a
            r = ctx.sess.qs[-1]
            if r.unit is not a.unit:
                fails.append({"kind": "not-left-unit", "opname": op})
            elif abs(F(r.magnitude) - want) > F(1, 10**9) * (abs(want) + abs(b_in_a) + F(1000) / pv):
                fails.append({"kind": "scale-sum-wrong", "opname": op, "a": str(a), "b": str(b),
                              "got": float(F(r.magnitude)), "want": float(want)})
            return fails
    sa, sb = si(ctx, a), si(ctx, b)
    if sa is None or sb is None:
        return []
    ctx.oracle_checks += 1
    cls = classify(a.unit, b.unit) if op not in ("mul", "div") else None
    deg = degree(a.unit) + degree(b.unit)
    if res.startswith("ERR"):
        err = res[4:]
        if op in ("mul", "div"):
            if err not in ("ZeroDivision",):
                fails.append({"kind": "arith-raises", "opname": op, "error": err})
            return fails
        if a.unit.dimension is not b.unit.dimension:
            return []
        if err in ("ConversionNotFound", "TypeError"):
            # an impossible conversion is C07's business; here only values are judged
            return []
        return [{"kind": "conversion-raises", "error": err, "class": cls, "opname": op,
                 "from": str(b.unit), "to": str(a.unit)}]
    if op in ("mul", "div"):
        r = ctx.sess.qs[-1]
        sr = si(ctx, r)
        want = sa * sb if op == "mul" else (sa / sb if sb != 0 else None)
        if sr is not None and want is not None and not close(sr, want, F(1, 10**11)):
            fails.append({"kind": "si-mismatch", "opname": op, "a": str(a), "b": str(b),
                          "got": float(sr), "want": float(want)})
        return fails
    if a.unit.dimension is not b.unit.dimension or ctx.sizes.has_offset(a.unit) or ctx.sizes.has_offset(b.unit):
        return []
    tol = F(1, 10**5) * deg
    if op in ("add", "sub"):
        if not res.startswith("ok\tq"):
            return []
        r = ctx.sess.qs[-1]
        sr = si(ctx, r)
        want = sa + sb if op == "add" else sa - sb
        scale = max(abs(sa), abs(sb))
        if r.unit is not a.unit:
            fails.append({"kind": "not-left-unit", "opname": op})
        elif sr is not None and abs(sr - want) > tol * scale:
            fails.append({"kind": "conversion-wrong", "class": cls, "opname": op, "a": str(a), "b": str(b),
                          "from": str(b.unit), "to": str(a.unit), "got": float(sr), "want": float(want)})
    else:
        scale = max(abs(sa), abs(sb))
        if abs(sa - sb) <= max(tol, F(4, 10**9)) * scale:
            return []      # a tie, or within the tolerance of the shipped constants
        want = {"eq": sa == sb, "ne": sa != sb, "lt": sa < sb, "le": sa <= sb, "gt": sa > sb, "ge": sa >= sb}[op]
        exp = "ok\tb\t%s" % ("true" if want else "false")
        if res != exp:
            fails.append({"kind": "conversion-wrong", "class": cls, "opname": op, "a": str(a), "b": str(b),
                          "from": str(a.unit), "to": str(b.unit), "got": res, "want": exp})
    return fails


def final_oracle(ctx):
    """Mixed SI / IEC prefixes (different bases): the product/quotient prefix has a float
    exponent, which the integer Lean model declines, so these cases run on the implementation
    only, with the property's 1e-9 tolerance."""
    from measured import Prefix
    rng = ctx.rng
    fails = []
    info = [u for u in Unit._by_name.values() if u.dimension.name == "information"]
    others = [Unit._by_name[n] for n in ("meter", "second", "gram", "bit") if n in Unit._by_name]
    si_p = ctx.si_prefixes
    iec_p = ctx.iec_prefixes
    ctx.extra["cross_base_cases"] = 0

    def fsi(q):
        # float SI value: magnitude x prefix value x size of the base factors
        u = q.unit
        s = ctx.sizes.unit_size(Unit(Prefix(0, 0), u.factors, u.dimension))
        if s is None:
            return None
        return float(q.magnitude) * float(u.prefix.quantify()) * float(s)

    for _ in range(300):
        ua = rng.choice(si_p) * rng.choice(info + others)
        ub = rng.choice(iec_p) * rng.choice(info)
        if rng.random() < 0.3:
            ub = rng.choice(info)          # e.g. byte = 2**3 bit, no named prefix
        if rng.random() < 0.5:
            ua, ub = ub, ua
        a = rng.choice([1, 3, 2.5, -4]) * ua
        b = rng.choice([1, 2, 0.5, 8]) * ub
        for name, f, want in (
            ("mul", lambda: a * b, lambda x, y: x * y),
            ("div", lambda: a / b, lambda x, y: x / y),
            ("pow", lambda: (a * b) ** 2, lambda x, y: (x * y) ** 2),
        ):
            ctx.oracle_checks += 1
            ctx.extra["cross_base_cases"] += 1
            try:
                r = f()
            except Exception as e:  # noqa: BLE001
                fails.append({"kind": "arith-raises", "opname": name, "error": type(e).__name__, "a": str(a), "b": str(b)})
                continue
            sa, sb, sr = fsi(a), fsi(b), fsi(r)
            if None in (sa, sb, sr):
                continue
            w = want(sa, sb)
            if not math.isclose(sr, w, rel_tol=1e-9):
                fails.append({"kind": "si-mismatch", "opname": name + "-cross-base", "a": str(a), "b": str(b),
                              "got": sr, "want": w})
        if a.unit.dimension is b.unit.dimension:
            for name, f, want in (("add", lambda: a + b, lambda x, y: x + y), ("sub", lambda: a - b, lambda x, y: x - y)):
                ctx.oracle_checks += 1
                try:
                    r = f()
                except Exception as e:  # noqa: BLE001
                    fails.append({"kind": "arith-raises", "opname": name, "error": type(e).__name__, "a": str(a), "b": str(b)})
                    continue
                sa, sb, sr = fsi(a), fsi(b), fsi(r)
                if None in (sa, sb, sr):
                    continue
                w = want(sa, sb)
                if abs(sr - w) > 1e-9 * max(abs(sa), abs(sb)):
                    fails.append({"kind": "si-mismatch", "opname": name + "-cross-base", "a": str(a), "b": str(b),
                                  "got": sr, "want": w})
    return fails


def nontrivial(ctx, line, res):
    f = line.split("\t")
    if f[0] == "X" and f[1] in ("add", "sub", "mul", "div", "eq", "lt", "le", "gt", "ge"):
        try:
            a, b = ctx.sess.arg(f[2]), ctx.sess.arg(f[3])
        except Exception:  # noqa: BLE001
            return None
        if isinstance(a, Quantity) and isinstance(b, Quantity) and a.unit is not b.unit:
            return (ctx.sess.uid(a.unit), ctx.sess.uid(b.unit), f[1])
    return None


def generate(ctx, n_ops):
    rng = ctx.rng
    emitted = 0
    info = [u for u in ctx.named if u.dimension.name == "information"]

    def build(fs, p):
        nonlocal emitted
        g = ctx.build(fs, p)
        try:
            line = next(g)
            while True:
                res = yield line
                emitted += 1
                line = g.send(res)
        except StopIteration as stop:
            return stop.value

    def qnew(m, u):
        nonlocal emitted
        res = yield "X\tqnew\t%s\tu%d" % (m, u)
        emitted += 1
        if res.startswith("ok\tq"):
            ctx.nq += 1
            return ctx.nq - 1
        return None

    while emitted < n_ops:
        r = rng.random()
        if r < 0.7:
            # additive / comparison: same dimension, different spelling
            src, dst = ctx.gen_units(clean_bias=0.5)
            pa = ctx.si_prefix() if rng.random() < 0.4 else None
            pb = ctx.si_prefix() if rng.random() < 0.4 else None
            temps = None
            if rng.random() < 0.15:
                # temperatures on two scales (any prefixes): == and < are decided by the kelvin value; a +- b is
                # a.magnitude +- (b written in a's unit) - invariance under re-expressing b
                names = [n for n in ("kelvin", "celsius", "Rankine", "fahrenheit") if n in Unit._by_name]
                if len(names) >= 2:
                    n1, n2 = rng.sample(names, 2)
                    if rng.random() < 0.5 and "celsius" in names and "kelvin" in names:
                        # a negative reading on a scale with an offset against a small absolute temperature:
                        # the signs order them one way, the temperatures the other
                        n1 = rng.choice([n for n in ("celsius", "fahrenheit") if n in names])
                        n2 = rng.choice([n for n in ("kelvin", "Rankine") if n in names])
                        if rng.random() < 0.5:
                            n1, n2 = n2, n1
                    temps = (Unit._by_name[n1], Unit._by_name[n2])
                    src, dst = [(temps[0], 1)], [(temps[1], 1)]
                    pa = ctx.si_prefix() if rng.random() < 0.25 else None
                    pb = ctx.si_prefix() if rng.random() < 0.25 else None
            if temps is None and info and rng.random() < 0.08:
                # mixed SI / IEC prefixes on information units
                src = [(rng.choice(info), 1)]
                dst = [(rng.choice(info), 1)]
                pa = rng.choice(ctx.si_prefixes)
                pb = None
            a = yield from build(src, pa)
            b = yield from build(dst, pb)
            if a is None or b is None:
                continue
            if temps:
                tm = ["i:-40", "i:-10", "i:-273", "i:0", "i:5", "i:100", "i:300", "i:-459", "i:37"]
                qa = yield from qnew(rng.choice(tm), a)
                qb = yield from qnew(rng.choice(tm), b)
            else:
                qa = yield from qnew(ctx.magnitude(), a)
                # make b physically close to a sometimes (comparisons near but not at ties)
                qb = yield from qnew(ctx.magnitude(), b)
            if qa is None or qb is None:
                continue
            for op in (rng.sample(["eq", "lt", "ge", "le", "gt", "add", "sub", "sub"], 4) if temps else rng.sample(["add", "sub", "eq", "lt", "ge", "le", "gt"], 3)):
                res = yield "X\t%s\tq%d\tq%d" % (op, qa, qb)
                emitted += 1
                if res.startswith("ok\tq"):
                    ctx.nq += 1
            if temps:
                continue
            # the same b re-expressed in a's unit, then compared with the original b
            res = yield "X\tconv\tq%d\tu%d" % (qb, a)
            emitted += 1
            if res.startswith("ok\tq"):
                qb2 = ctx.nq
                ctx.nq += 1
                res = yield "X\tadd\tq%d\tq%d" % (qa, qb2)
                emitted += 1
                if res.startswith("ok\tq"):
                    ctx.nq += 1
        else:
            # multiplicative: any dimensions
            s1, _ = ctx.gen_units(clean_bias=0.3)
            s2, _ = ctx.gen_units(clean_bias=0.3)
            a = yield from build(s1, ctx.si_prefix() if rng.random() < 0.4 else None)
            b = yield from build(s2, ctx.si_prefix() if rng.random() < 0.4 else None)
            if a is None or b is None:
                continue
            qa = yield from qnew(ctx.magnitude(), a)
            qb = yield from qnew(ctx.magnitude(), b)
            if qa is None or qb is None:
                continue
            for op in ("mul", "div"):
                res = yield "X\t%s\tq%d\tq%d" % (op, qa, qb)
                emitted += 1
                if res.startswith("ok\tq"):
                    ctx.nq += 1
            res = yield "X\tpow\tq%d\tn:%d" % (qa, ctx.small_int(-3, 3))
            emitted += 1
            if res.startswith("ok\tq"):
                ctx.nq += 1
    yield "STATE"
