"""C18 — levels and quantities interconvert by the logarithmic definition.

Generator: every logarithm family (bel, decibel, neper, octave, semitone, and further prefixed
variants such as millibel, decineper, cent), reference quantities of power and root-power
dimensions given in any convertible unit (prefixed, other named units), level magnitudes in
[-200, 200]; for each: quantity -> level, level -> quantity, both round trips, level == quantity.
Oracle (implementation only): the closed form (k/prefix) * log_base(quantity/reference) with
k = 2 exactly on the root-power dimensions, in exact sizes + math.log (1e-9 abs/rel), strict
monotonicity on pairs, round trips (1e-6 relative), and level == quantity.
"""
import math
import struct
from fractions import Fraction as F

import measured
from impl import parse_mag  # noqa: E402
from measured import Level, Logarithm, LogarithmicUnit, Prefix, Quantity, Unit

from .convcommon import ConvContext, classify, ftok

LEVEL_TEXT = ("Lean over the reals: with levelR = k*((1/prefix)*log_b(q/ref)) and quantifyR = b^(L*prefix/k)*ref (the formulas of "
              "LogarithmicUnit.level and Level.quantify), levelR is the property's closed form (level_formula), quantity -> level -> "
              "quantity and level -> quantity -> level are identities for positive quantities/references and any base b > 0, b != 1 "
              "(quantify_level, level_quantify: Real.rpow_logb / logb_rpow), levelR is strictly increasing in the quantity for "
              "b > 1 and positive prefix and power ratio (level_strict_mono), and multiplying the quantity by c adds "
              "k/prefix*log_b c (level_of_product). The magnitude the Lean MODEL assembles for a level is proved to be that formula "
              "(logBase_valR, level_assembly). Per run: every registered logarithm has base > 1 and a normalised prefix, and the "
              "root-power dimension set is the documented one with k = 2 exactly there (decide +kernel on regenerated data). "
              "Tied to the code by differential execution of level/quantify and the closed-form oracle.")
LEVEL_NOTE = ("Trusted: Lean kernel + Mathlib (Real.logb, rpow). The reference conversion inside level() inherits C04 for exotic "
              "reference units (generated references use the clean fragment). A non-positive quantity raises ValueError from "
              "math.log (outside the property). IEEE rounding and under/overflow (10^(-187000)) not modelled.")
TECHNIQUE = "Lean 4 + Mathlib real analysis (log/exp inverses, monotonicity) for the level formulas, model link + decide +kernel on the regenerated logarithm table + differential correspondence + closed-form oracle"

THEOREMS = [
    "Measured.C18.level_formula", "Measured.C18.quantify_level", "Measured.C18.level_quantify",
    "Measured.C18.quantify_pos", "Measured.C18.level_strict_mono", "Measured.C18.level_eq_quantity",
    "Measured.C18.level_of_product", "Measured.C18.logBase_valR", "Measured.C18.level_assembly",
    "Measured.Obligations.logarithms_wellformed", "Measured.Obligations.root_power_dims_ok",
]
LEAN_TARGETS = ["Props.C18", "Obligations.C18"]
QUICK = {"chunks": 4, "ops": 900}
THOROUGH = {"chunks": 16, "ops": 6000}
RTOL = 1e-9
RULE = ("(logarithm family, reference quantity, quantity or level magnitude); non-trivial = the quantity differs from the "
        "reference; distinct by op text")

FAMILIES = [  # (base token, python base, prefix (base, exp))
    ("i:10", 10, (0, 0)), ("i:10", 10, (10, -1)), ("i:10", 10, (10, -3)),
    ("f:4005bf0a8b145769", math.e, (0, 0)), ("f:4005bf0a8b145769", math.e, (10, -1)),
    ("i:2", 2, (0, 0)), ("i:2", 2, (12, -1)), ("i:2", 2, (1200, -1)),
    # multiplying prefixes (one level step is MORE than one base step): deka-/hecto-bel, kilo-neper, kibi-octave
    ("i:10", 10, (10, 1)), ("i:10", 10, (10, 2)), ("f:4005bf0a8b145769", math.e, (10, 3)), ("i:2", 2, (2, 10)),
]
REFS = ["watt", "volt", "pascal", "ampere", "hertz", "joule", "meter"]


class Context(ConvContext):
    def __init__(self, sess, rng):
        super().__init__(sess, rng)
        self.lus = []     # (python LogarithmicUnit, base, prefix tuple, k)
        self.nl = 0
        self.pending = {}


def oracle(ctx, line, res):
    f = line.split("\t")
    if f[0] != "X":
        return []
    fails = []
    if f[1] == "level" and len(f) == 4:
        li = int(f[2][2:])
        lu, base, pfx, k, ref = ctx.lus[li]
        q = ctx.sess.arg(f[3])
        ctx.oracle_checks += 1
        # against the reference the unit was ASKED for, not the one the returned object carries
        ratio = ctx.sizes.ratio(q.unit, ref.unit)
        if ratio is None:
            return []
        x = float(F(q.magnitude) * ratio / F(ref.magnitude))
        if res.startswith("ERR"):
            if x <= 0 and res == "ERR\tValueError":
                return []
            cls = classify(q.unit, lu.reference.unit)
            kind = "conversion-raises" if cls else "level-raises"
            return [{"kind": kind, "class": cls, "error": res[4:], "q": str(q), "from": str(q.unit), "to": str(lu.reference.unit)}]
        if x <= 0:
            return [{"kind": "level-of-nonpositive", "q": str(q), "got": res}]
        pv = pfx[0] ** pfx[1] if pfx[0] else 1
        want = k / pv * math.log(x) / math.log(base)
        got = ctx.sess.ls[-1].magnitude
        if not math.isclose(float(got), want, rel_tol=1e-9, abs_tol=1e-9):
            cls = classify(q.unit, lu.reference.unit)
            fails.append({"kind": "conversion-wrong" if cls else "level-wrong", "class": cls, "q": str(q), "ref": str(lu.reference),
                          "family": (base, pfx), "got": float(got), "want": want,
                          "from": str(q.unit), "to": str(lu.reference.unit)})
    elif f[1] == "lquant":
        lv = ctx.sess.arg(f[2])
        rec = [r for r in ctx.lus if r[0] is lv.unit]
        if not rec:
            return []
        lu, base, pfx, k, ref = rec[-1]
        ctx.oracle_checks += 1
        if res.startswith("ERR"):
            if res == "ERR\tOverflow":
                return []
            return [{"kind": "quantify-raises", "error": res[4:], "level": str(lv.magnitude)}]
        pv = pfx[0] ** pfx[1] if pfx[0] else 1
        try:
            r2 = ctx.sizes.ratio(ref.unit, ctx.sess.qs[-1].unit)
            want = base ** (float(lv.magnitude) * pv / k) * float(F(ref.magnitude) * r2)
        except (OverflowError, TypeError):
            return []
        got = ctx.sess.qs[-1]
        if got.unit.dimension is not ref.unit.dimension:
            fails.append({"kind": "quantify-wrong-unit"})
        elif want != 0 and not math.isclose(float(got.magnitude), want, rel_tol=1e-9):
            fails.append({"kind": "quantify-wrong", "level": str(lv.magnitude), "family": (base, pfx),
                          "got": float(got.magnitude), "want": want})
    elif f[1] == "eq":
        a, b = ctx.sess.arg(f[2]), ctx.sess.arg(f[3])
        exp = ctx.pending.pop(line, None)
        if exp is not None:
            ctx.oracle_checks += 1
            if res != exp:
                fails.append({"kind": "level-quantity-eq", "a": str(a), "b": str(b), "got": res, "want": exp})
    return fails


def nontrivial(ctx, line, res):
    f = line.split("\t")
    if f[0] == "X" and f[1] in ("level", "lquant", "eq"):
        return line
    return None


def generate(ctx, n_ops):
    rng = ctx.rng
    emitted = 0
    root_power = measured.ROOT_POWER_DIMENSIONS

    def build(fs, p):
        nonlocal emitted
        g = ctx.build(fs, p)
        try:
            line = next(g)
            while True:
                res = yield line
                emitted += 1
                line = g.send(res)
        except StopIteration as stop:
            return stop.value

    def qnew(m, u):
        nonlocal emitted
        res = yield "X\tqnew\t%s\tu%d" % (m, u)
        emitted += 1
        if res.startswith("ok\tq"):
            ctx.nq += 1
            return ctx.nq - 1
        return None

    sibling = None
    while emitted < n_ops:
        btok, base, pfx = rng.choice(FAMILIES)
        ref_unit = Unit._by_name[rng.choice(REFS)]
        # other units for the measured quantity: only pairs in the planner's clean fragment (the
        # reference conversion inside level() is C04's subject, not C18's)
        same = [u for u in ctx.bydim.get(ref_unit.dimension, []) if classify(u, ref_unit) is None]
        if sibling is None:
            ru = yield from build([(ref_unit, 1)], ctx.si_prefix() if rng.random() < 0.5 else None)
            if ru is None:
                continue
        if sibling is not None:
            # a reference that differs from the previous one by less than 1e-9 (absolute) but by much more than
            # rounding relative to itself: a different logarithmic unit, whatever a key does with the magnitude
            btok, base, pfx, ref_unit, ru, v = sibling
            same = [u for u in ctx.bydim.get(ref_unit.dimension, []) if classify(u, ref_unit) is None]
            sibling = None
            rq = yield from qnew(ftok(v + 2e-10), ru)
        else:
            mtok = rng.choice(["i:1", "i:20", ftok(0.5), "i:1000", ftok(2e-5), ftok(1e-12), ftok(1e-15), ftok(3e-10),
                               ftok(1.0000000001), ftok(1e12)])
            rq = yield from qnew(mtok, ru)
            try:
                v = float(parse_mag(mtok))
            except Exception:  # noqa: BLE001
                v = None
            if v is not None and v <= 1.0 and rng.random() < 0.35:
                sibling = (btok, base, pfx, ref_unit, ru, v)
        if rq is None:
            continue
        res = yield "X\tlunit\t%s\tp%d:%d\tq%d" % (btok, pfx[0], pfx[1], rq)
        emitted += 1
        if not res.startswith("ok\tlu"):
            continue
        li = int(res.split("\t")[2])
        lu = ctx.sess.lus[li]
        k = 2 if lu.reference.unit.dimension in root_power else 1
        while len(ctx.lus) <= li:
            ctx.lus.append(None)
        ctx.lus[li] = (lu, base, pfx, k, ctx.sess.qs[rq])     # the reference AS PASSED to Logarithm[...]
        for _ in range(rng.randint(2, 5)):
            # a quantity in some convertible unit of the reference's dimension
            other = rng.choice(same) if same and rng.random() < 0.6 else ref_unit
            qu = yield from build([(other, 1)], ctx.si_prefix() if rng.random() < 0.4 else None)
            if qu is None:
                continue
            m = rng.choice(["i:1", "i:100", ftok(3.7), ftok(1e-6), "i:2", ftok(12345.6), "d:25/10"])
            q = yield from qnew(m, qu)
            if q is None:
                continue
            res = yield "X\tlevel\tn:%d\tq%d" % (li, q)
            emitted += 1
            if not res.startswith("ok\tL"):
                continue
            lv = ctx.nl
            ctx.nl += 1
            # back to a quantity, and compare the level with the quantity it came from
            res = yield "X\tlquant\tL%d" % lv
            emitted += 1
            if res.startswith("ok\tq"):
                ctx.nq += 1
        for _ in range(rng.randint(1, 3)):
            lm = rng.choice(["i:0", "i:20", "i:-30", ftok(rng.uniform(-200, 200)), "i:120", ftok(-3.0103),
                             "i:1", "i:3", "i:-7", "i:15"])      # odd ints: exponent/2 for root-power references is not an integer
            if pfx[1] > 0:
                # keep the denoted quantity inside the float range: |level * prefix| <= ~200 base steps
                span = 200.0 / (pfx[0] ** pfx[1])
                lm = rng.choice(["i:0", ftok(rng.uniform(-span, span)), ftok(span / 7), ftok(-span / 3)])
            res = yield "X\tlnew\t%s\tn:%d" % (lm, li)
            emitted += 1
            if not res.startswith("ok\tL"):
                continue
            lv = ctx.nl
            ctx.nl += 1
            res = yield "X\tlquant\tL%d" % lv
            emitted += 1
            if not res.startswith("ok\tq"):
                continue
            q = ctx.nq
            ctx.nq += 1
            # a level compares equal to the quantity it denotes, in both argument orders, and to a level of the
            # same magnitude; not to twice that quantity (Level.__eq__, Quantity.__eq__ with a Level operand)
            for line, want in (("X\teq\tL%d\tq%d" % (lv, q), "ok\tb\ttrue"), ("X\teq\tq%d\tL%d" % (q, lv), "ok\tb\ttrue"),
                               ("X\tne\tL%d\tq%d" % (lv, q), "ok\tb\tfalse")):
                if rng.random() < 0.5:
                    ctx.pending[line] = want
                    res = yield line
                    emitted += 1
            if rng.random() < 0.4:
                res = yield "X\tmul\tq%d\ti:2" % q
                emitted += 1
                if res.startswith("ok\tq"):
                    q2 = ctx.nq
                    ctx.nq += 1
                    line = "X\teq\tL%d\tq%d" % (lv, q2)
                    zero = float(ctx.sess.qs[q].magnitude) == 0.0 or float(ctx.sess.qs[q].magnitude) == float(ctx.sess.qs[q2].magnitude)
                    if not zero:
                        ctx.pending[line] = "ok\tb\tfalse"
                    res = yield line
                    emitted += 1
            if rng.random() < 0.4:
                res = yield "X\tlnew\t%s\tn:%d" % (lm, li)
                emitted += 1
                if res.startswith("ok\tL"):
                    lv2 = ctx.nl
                    ctx.nl += 1
                    line = "X\teq\tL%d\tL%d" % (lv, lv2)
                    ctx.pending[line] = "ok\tb\ttrue"
                    res = yield line
                    emitted += 1
            # level -> quantity -> level
            res = yield "X\tlevel\tn:%d\tq%d" % (li, q)
            emitted += 1
            if res.startswith("ok\tL"):
                ctx.nl += 1
    yield "STATE"
