-- feasibility probe for C20: lock-protected check-then-insert, all schedules, any number of threads
inductive PC | acquire | check | allocInsert | release | done
  deriving DecidableEq, Repr

structure TS where
  pc  : PC := .acquire
  ret : Option Nat := none      -- object returned (= index)
  deriving Repr

structure Sh where
  lock  : Option Nat := none    -- holder
  known : Option Nat := none    -- the intern-table entry for the one key under test
  next  : Nat := 0              -- allocator
  thr   : Nat → TS := fun _ => {}

def upd (f : Nat → TS) (t : Nat) (v : TS) : Nat → TS := fun i => if i = t then v else f i

def step (s : Sh) (t : Nat) : Sh :=
  let me := s.thr t
  match me.pc with
  | .acquire => match s.lock with
      | none => { s with lock := some t, thr := upd s.thr t { me with pc := .check } }
      | some _ => s                                   -- blocked: no-op
  | .check => match s.known with
      | some o => { s with thr := upd s.thr t { pc := .release, ret := some o } }
      | none   => { s with thr := upd s.thr t { me with pc := .allocInsert } }
  | .allocInsert =>
      { s with known := some s.next, next := s.next + 1,
               thr := upd s.thr t { pc := .release, ret := some s.next } }
  | .release => { s with lock := none, thr := upd s.thr t { me with pc := .done } }
  | .done => s

def run (s : Sh) (sched : List Nat) : Sh := sched.foldl step s

/-- invariant: lock discipline + every returned object is the table entry -/
structure LockInv (s : Sh) : Prop where
  holder : ∀ t, ((s.thr t).pc = .check ∨ (s.thr t).pc = .allocInsert ∨ (s.thr t).pc = .release) → s.lock = some t
  alloc_none : ∀ t, (s.thr t).pc = .allocInsert → s.known = none
  ret_known : ∀ t o, (s.thr t).ret = some o → s.known = some o
  ret_pc : ∀ t, ((s.thr t).pc = .acquire ∨ (s.thr t).pc = .check ∨ (s.thr t).pc = .allocInsert) → (s.thr t).ret = none

theorem inv_init : LockInv ({} : Sh) := by
  constructor <;> intro t <;> simp

theorem inv_step (s : Sh) (t : Nat) (h : LockInv s) : LockInv (step s t) := by
  obtain ⟨h1, h2, h3, h4⟩ := h
  have a1 := h1 t; have a2 := h2 t; have a3 := h3 t; have a4 := h4 t
  unfold step
  cases hpc : (s.thr t).pc <;> simp only [hpc] at a1 a2 a4 ⊢
  · cases hl : s.lock with
    | some x => exact ⟨h1, h2, h3, h4⟩
    | none =>
      refine ⟨?_, ?_, ?_, ?_⟩ <;> intro u <;> by_cases hut : u = t <;> simp only [upd, hut, if_true, if_false] <;> grind
  · cases hk : s.known with
    | some o =>
      refine ⟨?_, ?_, ?_, ?_⟩ <;> intro u <;> by_cases hut : u = t <;> simp only [upd, hut, if_true, if_false] <;> grind
    | none =>
      refine ⟨?_, ?_, ?_, ?_⟩ <;> intro u <;> by_cases hut : u = t <;> simp only [upd, hut, if_true, if_false] <;> grind
  · refine ⟨?_, ?_, ?_, ?_⟩ <;> intro u <;> by_cases hut : u = t <;> simp only [upd, hut, if_true, if_false] <;> grind
  · refine ⟨?_, ?_, ?_, ?_⟩ <;> intro u <;> by_cases hut : u = t <;> simp only [upd, hut, if_true, if_false] <;> grind
  · exact ⟨h1, h2, h3, h4⟩

theorem inv_run (s : Sh) (sched : List Nat) (h : LockInv s) : LockInv (run s sched) := by
  induction sched generalizing s with
  | nil => exact h
  | cons t rest ih => exact ih _ (inv_step s t h)

/-- every schedule, any number of threads: all threads that returned got the same object, and it is the table entry -/
theorem agreement (sched : List Nat) (t u : Nat) (a b : Nat)
    (ha : ((run {} sched).thr t).ret = some a) (hb : ((run {} sched).thr u).ret = some b) :
    a = b ∧ (run {} sched).known = some a := by
  have h := inv_run {} sched inv_init
  have h1 := h.ret_known t a ha
  have h2 := h.ret_known u b hb
  rw [h1] at h2
  exact ⟨Option.some.inj h2, h1⟩
#print axioms agreement
