/-
  Model/Basic.lean — exceptions, dimensions and prefixes of `measured`, as values.

  Source modelled: /repo/src/measured/__init__.py  (class Dimension, class Prefix).

  Representation choices (see DESIGN.md §3.2):
  * A `Dimension` object is interned by its exponent tuple and nothing else, so the object
    *is* its exponent vector: identity of dimension objects = equality of `Dim` values of
    the same length.
  * A `Prefix` object is interned by `(base, exponent)` after the normalisation
    `base ≠ 0 ∧ exponent = 0 ↦ IdentityPrefix = Prefix(0, 0)`, so the object *is* the
    normalised pair.  Products of prefixes with different non-zero bases have float
    exponents in Python; they are outside this integer model and yield `Exc.unmodelled`
    (their numeric law is modelled separately in `Model/CrossBase.lean`).
  * every Python `raise` is an explicit `Except` value, never a default.
-/

namespace Measured

/-- The exception classes that can escape the modelled code. -/
inductive Exc where
  | parseError        -- measured._parser.LarkError and subclasses
  | keyError
  | notFound          -- conversions.ConversionNotFound
  | typeError
  | valueError
  | fractional        -- FractionalDimensionError (a ValueError subclass)
  | assertion
  | zeroDivision
  | overflow
  | invalidOperation  -- decimal.InvalidOperation (0/0, 0**0 on Decimals)
  | unmodelled        -- the model declines (cross-base prefix arithmetic, float exponents …)
  deriving DecidableEq, Repr, Inhabited

def Exc.name : Exc → String
  | .parseError => "ParseError" | .keyError => "KeyError" | .notFound => "ConversionNotFound"
  | .typeError => "TypeError" | .valueError => "ValueError" | .fractional => "Fractional"
  | .assertion => "Assertion" | .zeroDivision => "ZeroDivision" | .overflow => "Overflow"
  | .invalidOperation => "Other:InvalidOperation"
  | .unmodelled => "Unmodelled"

/-- Stable insertion sort (structural, so the kernel can evaluate it): `insertBy` puts `x`
    before the first element it is `le` to, hence before equal elements that came later. -/
def insertBy {α} (le : α → α → Bool) (x : α) : List α → List α
  | [] => [x]
  | y :: rest => if le x y then x :: y :: rest else y :: insertBy le x rest

def isort {α} (le : α → α → Bool) (l : List α) : List α := l.foldr (insertBy le) []

/-! ## Dimensions -/

abbrev Dim := List Int

namespace Dim

/-- `Dimension._multiply`: `tuple(s + o for s, o in zip(...))`. -/
def mul (a b : Dim) : Dim := List.zipWith (· + ·) a b
/-- `Dimension._divide`. -/
def div (a b : Dim) : Dim := List.zipWith (· - ·) a b
/-- `Dimension.__pow__`. -/
def pow (a : Dim) (n : Int) : Dim := a.map (· * n)
/-- The all-zero vector of length `n` (`Number`). -/
def number (n : Nat) : Dim := List.replicate n 0

def isNumber (a : Dim) : Bool := a.all (· == 0)

/-- `Dimension.root`: `degree == 0 ↦ Number`; raise when some `s // degree != s / degree`
    (i.e. `degree ∤ s`); else floor-divide every exponent. -/
def root (a : Dim) (n : Int) : Except Exc Dim :=
  if n == 0 then .ok (number a.length)
  else if a.any (fun s => s % n != 0) then .error .fractional
  else .ok (a.map (fun s => Int.fdiv s n))

/-- `Dimension.as_ratio`. -/
def asRatio (a : Dim) : Dim × Dim :=
  (a.map (fun e => if e ≥ 0 then e else 0), a.map (fun e => if e < 0 then -e else 0))

/-- `Dimension.is_factor` — transliterated, including its odd rule (any shared index
    with `theirs >= mine`), because the conversion planner depends on it. -/
def isFactor (self other : Dim) : Bool :=
  self == other || self.isNumber ||
    (List.zipWith (fun mine theirs => theirs != 0 && mine != 0 && decide (theirs ≥ mine)) self other).any id

/-- `sum(abs(e) for e in d.exponents)` (used by `_by_complex_first` and `_replace_factors`). -/
def weight (a : Dim) : Nat := a.foldl (fun acc e => acc + e.natAbs) 0

def gcdAll (a : Dim) : Nat := a.foldl (fun g e => Nat.gcd g e.natAbs) 0

end Dim

/-! ## Prefixes -/

structure Pfx where
  base : Nat
  exp  : Int
  deriving DecidableEq, Repr, Inhabited

namespace Pfx

def identity : Pfx := ⟨0, 0⟩

/-- `Prefix.__new__`: `base != 0 and exponent == 0 ↦ IdentityPrefix`. -/
def new (base : Nat) (exp : Int) : Pfx :=
  if base ≠ 0 ∧ exp = 0 then identity else ⟨base, exp⟩

/-- `Prefix.__mul__` on prefixes. -/
def mul (a b : Pfx) : Except Exc Pfx :=
  if b.base == 0 then .ok a
  else if a.base == 0 then .ok b
  else if b.base == a.base then .ok (new a.base (a.exp + b.exp))
  else .error .unmodelled

/-- `Prefix.__truediv__`. -/
def div (a b : Pfx) : Except Exc Pfx :=
  if b.base == 0 then .ok a
  else if a.base == 0 then .ok (new b.base (-b.exp))
  else if b.base == a.base then .ok (new a.base (a.exp - b.exp))
  else .error .unmodelled

/-- `Prefix.__pow__`. -/
def pow (a : Pfx) (n : Int) : Pfx := new a.base (a.exp * n)

/-- `Prefix.root`. -/
def root (a : Pfx) (n : Int) : Except Exc Pfx :=
  if n == 0 then .ok identity
  else if a.exp % n != 0 then .error .fractional
  else .ok (new a.base (Int.fdiv a.exp n))

end Pfx

end Measured
