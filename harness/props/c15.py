"""C15 — pickle, copy and JSON round-trip every value, preserving singleton identity.

Generator: every registered dimension, prefix and unit (sweep), compound and prefixed units
from the C13 space (products of prefixed registered units with exponents), quantities over them
with int, float and Decimal magnitudes; each through pickle (protocols 2..5), copy, deepcopy,
the library's JSON codec (explicit encoder/decoder and `codecs_installed()`), the pydantic
validator on the JSON form and the SQL composite form; and OLD serialisations: dumped, then the
unit gains an alias (or other units are created), then loaded.
Oracle (implementation only): dimensions, prefixes, units come back as the identical object;
names/symbols of every object and all registries are unchanged by a round trip; quantities come
back equal with the same magnitude type (pickle/copy: the identical unit object).
"""
import collections
from decimal import Decimal
from fractions import Fraction as F

from measured import Dimension, Prefix, Quantity, Unit

from .c13 import classify_unit, pick_terms, quantity_equal
from .c19 import snapshot, same_dict
from .convcommon import ConvContext, ftok

LEVEL_TEXT = ("Lean: in every canonical, faithful state, rebuilding a unit from its serialised constructor arguments (what pickle, copy, "
              "deepcopy and the JSON hooks do: a base unit through _by_name, any other unit through its key) returns that very unit and "
              "leaves the whole state - intern table, names, symbols, registries - untouched (reenter_identity); the arguments may be "
              "serialised now and used after ANY later history (reenter_after_history, using run_canon, run_faithful and the "
              "monotonicity of the name log); Prefix(base, exponent) / Dimension(exponents) on an existing key return the existing "
              "object and change nothing (reenter_single_name). Instantiated at the shipped registries for every shipped unit and every "
              "history (shipped_units_reenter, with init_base_units_named by decide +kernel). Quantity JSON / SQL composite carry the "
              "unit as str(unit): C13's theorems and catalogued findings apply. Tied to the code by differential execution of the real "
              "serialisers against the model's re-entry and an identity/registry oracle after every round trip.")
LEVEL_NOTE = ("pickle's and json's own byte formats are Python runtime behaviour and are exercised, not modelled: the model is the "
              "constructor call they end in. Trusted: that those libraries call __new__/__getnewargs_ex__/__setstate__ and the JSON "
              "hooks as documented. Quantity text-form round trips inherit the C13 known findings (symbol-less pushed prefix, the 7 "
              "symbol collisions, cross-base float prefixes).")
TECHNIQUE = "Lean 4 theorems (constructor re-entry is the identity on object and state, in every reachable state and after any history) + decide +kernel on regenerated registries + differential correspondence with the real pickle/copy/json + identity and registry oracle"

THEOREMS = [
    "Measured.C15.reenter_identity", "Measured.C15.reenter_after_history", "Measured.C15.reenter_single_name",
    "Measured.firstName_stable", "Measured.run_faithful", "Measured.run_canon",
    "Measured.Obligations.init_base_units_named", "Measured.Obligations.shipped_units_reenter",
]
LEAN_TARGETS = ["Props.C15", "Obligations.C15"]
QUICK = {"chunks": 8, "ops": 1200}
THOROUGH = {"chunks": 16, "ops": 9000}
RULE = ("(value, serialiser); non-trivial = a prefixed or compound unit, a quantity over one, or an object serialised before a later "
        "alias/history; distinct by op text")

UNIT_HOWS = ["pickle2", "pickle3", "pickle4", "pickle5", "copy", "deepcopy", "json", "jsoninstalled", "pydantic", "pydanticname"]
Q_SAME = ["pickle2", "pickle4", "pickle5", "copy", "deepcopy"]
Q_TEXT = ["json", "jsoninstalled", "pydantic", "composite"]
N_HOWS = ["pickle2", "pickle5", "copy", "deepcopy", "json", "jsoninstalled", "pydantic", "pydanticname"]


class Context(ConvContext):
    def __init__(self, sess, rng):
        super().__init__(sess, rng)
        self.by_symbol = dict(Unit._by_symbol)
        self.symbols = sorted(self.by_symbol)
        self.pfx_si = [p for p in self.si_prefixes if p.symbol]
        self.pfx_iec = [p for p in self.iec_prefixes if p.symbol]
        self.pending = {}
        self.before = snapshot()
        self.blobs = []
        self.extra["outcomes"] = collections.Counter()


def unchanged(ctx, now):
    b = ctx.before
    changed = [k for k in ("un", "us", "pn", "ps", "dn") if not same_dict(b[k], now[k])]
    changed += [k for k in ("unames", "pnames", "dnames") if any(b[k].get(i) != v for i, v in now[k].items() if i in b[k])]
    return changed


def oracle(ctx, line, res):
    f = line.split("\t")
    fails = []
    exp = ctx.pending.pop(line, None)
    now = snapshot()
    if exp is not None:
        ctx.oracle_checks += 1
        how = exp["how"]
        # names, symbols and registries are never changed by a round trip
        ch = unchanged(ctx, now)
        if ch:
            fails.append({"kind": "roundtrip-changed-names", "how": how, "changed": ch, "value": exp["text"]})
        if exp["what"] in ("unit", "old-unit"):
            x = exp["value"]
            if res.startswith("ERR"):
                fails.append({"kind": "roundtrip-raises", "how": how, "error": res[4:], "value": exp["text"], "class": None})
            else:
                y = ctx.sess.U(res.split("\t")[1]) if res.startswith("ok\tu") else None
                ctx.extra["outcomes"]["identical" if y is x else "different"] += 1
                if y is not x:
                    fails.append({"kind": "roundtrip-not-identical", "how": how, "value": exp["text"], "got": res})
        elif exp["what"] == "single":
            if res != exp["want"]:
                fails.append({"kind": "roundtrip-not-identical", "how": how, "value": exp["text"], "got": res})
        elif exp["what"] == "quantity":
            q = exp["value"]
            cls, pair = classify_unit(q.unit) if how in Q_TEXT else (None, None)
            if res.startswith("ERR"):
                fails.append({"kind": "quantity-roundtrip-unparseable" if how in Q_TEXT else "roundtrip-raises", "how": how,
                              "class": cls, "pair": pair, "error": res[4:], "value": exp["text"]})
            else:
                r = ctx.sess.qs[-1]
                if isinstance(q.magnitude, Decimal) or isinstance(r.magnitude, Decimal):
                    ok = type(r.magnitude) is type(q.magnitude) and r.unit is q.unit and r.magnitude == q.magnitude
                    if how in Q_TEXT and not ok and type(r.magnitude) is type(q.magnitude):
                        ok2, _a, _b = quantity_equal(ctx, Quantity(float(r.magnitude), r.unit), Quantity(float(q.magnitude), q.unit))
                        # the unit travels as text and may come back as an equal unit (kg for k·g); the
                        # Decimal magnitude travels as its own exact text and must come back identical
                        ok = ok2 and r.magnitude == q.magnitude
                else:
                    ok, _a, _b = quantity_equal(ctx, r, q)
                    ok = ok and type(r.magnitude) is type(q.magnitude)
                if how in Q_SAME and r.unit is not q.unit:
                    ok = False
                if not ok:
                    fails.append({"kind": "quantity-roundtrip-different", "how": how, "class": cls, "pair": pair, "value": exp["text"],
                                  "got": "%r %s" % (r.magnitude, r.unit)})
    ctx.before = now
    return fails


def nontrivial(ctx, line, res):
    f = line.split("\t")
    if f[0] in ("X", "N") and f[1] in ("reenter", "qreenter", "qtext", "pload", "pser", "dser"):
        return line
    return None


def magnitude_token(rng):
    r = rng.random()
    if r < 0.35:
        return "i:%d" % rng.choice([1, 2, 3, -4, 7, 10, 0, 250, 10 ** 9, 2 ** 70, rng.randint(-10 ** 6, 10 ** 6)])
    if r < 0.7:
        return ftok(rng.choice([1.0, 2.5, -0.75, 1e-3, 12345.678, 0.1, 1e22, 1e-7, -0.0, rng.uniform(-100, 100)]))
    if r < 0.78:
        # Decimals with more significant digits than the default context keeps (28): a codec that
        # re-rounds (normalize(), +x, quantize) loses them; the property quantifies over every Decimal
        k = rng.choice([30, 34, 40, 50])
        return "d:%d/%d" % (rng.choice([1, -1]) * (10 ** k + rng.randint(1, 999)), rng.choice([10 ** k, 10 ** (k // 2), 1]))
    return "d:%d/%d" % (rng.randint(-99999, 99999), rng.choice([1, 2, 10, 100, 1000, 8]))


def generate(ctx, n_ops):
    rng = ctx.rng
    emitted = 0

    def emit(line, exp=None):
        nonlocal emitted
        if exp is not None:
            ctx.pending[line] = exp
        res = yield line
        emitted += 1
        return res

    # chunk 0: every registered dimension, prefix and unit through every serialiser
    if getattr(ctx, "seed", 1) % 1000 == 0:
        for u in list(dict.fromkeys(Unit._by_name.values())):
            for how in ("pickle5", "deepcopy", "json"):
                yield from emit("X\treenter\t%s\tu%d" % (how, ctx.sess.uid(u)), {"what": "unit", "how": how, "value": u, "text": str(u)})
        for p in list(Prefix._known.values()):
            if not isinstance(p.exponent, int):
                continue
            for how in ("pickle5", "copy", "json", "pydantic"):
                tok = "p%d:%d" % (p.base, p.exponent)
                yield from emit("N\tpser\t%s\t%s" % (how, tok), {"what": "single", "how": how, "want": "ok\t" + tok, "text": tok})
        for d in list(Dimension._known.values()):
            for how in ("pickle5", "deepcopy", "json", "pydantic"):
                tok = "d" + ",".join(str(e) for e in d.exponents)
                yield from emit("N\tdser\t%s\t%s" % (how, tok), {"what": "single", "how": how, "want": "ok\t" + tok, "text": tok})
        ctx.extra["sweep"] = "every registered dimension, prefix and named unit"
    deferred = []
    scenario = 0
    marked = False
    while emitted < n_ops:
        cross = emitted > n_ops * 0.88
        if cross and not marked:
            marked = True
            yield "STATE"
        # a text parsed (as prefix + symbol) BEFORE another unit registers exactly that symbol: the
        # quantity text forms of the later unit must still read back as that unit
        if emitted >= scenario * 500 and not cross:
            scenario += 1
            tag = "".join(rng.choice("qwxyzjv") for _ in range(4))
            if tag not in Unit._by_symbol and not any(tag[:i] in Prefix._by_symbol and tag[i:] in Unit._by_symbol for i in range(1, 4)):
                p = rng.choice(ctx.pfx_si)
                dim = "d" + ",".join("1" if i == 3 else "0" for i in range(10))
                res = yield from emit("U\tdefine\t%s\tname-%s\t%s" % (dim, tag, tag))
                late = p.symbol + tag
                if res.startswith("ok\tu") and late not in Unit._by_symbol:
                    yield from emit("X\tuparse\th:%s" % ".".join("%x" % ord(c) for c in late))
                    res = yield from emit("U\tdefine\t%s\tname-%s\t%s" % (dim, late, late))
                    if res.startswith("ok\tu"):
                        newi = int(res.split("\t")[1][1:])
                        res = yield from emit("X\tqnew\t%s\tu%d" % (magnitude_token(rng), newi))
                        if res.startswith("ok\tq"):
                            qi = ctx.nq
                            ctx.nq += 1
                            q = ctx.sess.qs[-1]
                            for how in Q_TEXT:
                                res = yield from emit("X\tqtext\t%s\tq%d" % (how, qi),
                                                      {"what": "quantity", "how": how, "value": q, "text": "%r %s" % (q.magnitude, late)})
                                if res.startswith("ok\tq"):
                                    ctx.nq += 1
        terms = pick_terms(ctx, cross)
        cur = None
        okay = True
        for p, sym, u, e in terms:
            x = ctx.sess.uid(u)
            if p is not None:
                res = yield from emit("U\tpmul\tp%d:%d\tu%d" % (p.base, p.exponent, x))
                if not res.startswith("ok\tu"):
                    okay = False
                    break
                x = int(res.split("\t")[1][1:])
            if e != 1:
                res = yield from emit("U\tpow\tu%d\t%d" % (x, e))
                if not res.startswith("ok\tu"):
                    okay = False
                    break
                x = int(res.split("\t")[1][1:])
            if cur is None:
                cur = x
            else:
                res = yield from emit("U\tmul\tu%d\tu%d" % (cur, x))
                if not res.startswith("ok\tu"):
                    okay = False
                    break
                cur = int(res.split("\t")[1][1:])
        if not okay:
            continue
        unit = ctx.unit(cur)
        text = repr(unit)[:120]
        for how in rng.sample(UNIT_HOWS, 3):
            yield from emit("X\treenter\t%s\tu%d" % (how, cur), {"what": "unit", "how": how, "value": unit, "text": text})
        # an old serialisation used later: dump, then history (alias / new units), then load
        if rng.random() < 0.5:
            yield from emit("X\tpdump\tu%d" % cur)
            k = len(ctx.blobs)
            ctx.blobs.append(cur)
            if rng.random() < 0.7:
                ctx.fresh = getattr(ctx, "fresh", 0) + 1
                # letters only: a symbol must stay one SYMBOL token for the quantity text forms below
                tag = "al%s%s" % ("".join(rng.choice("qwxzjv") for _ in range(3)), "".join("abcdefghij"[int(c)] for c in str(ctx.fresh)))
                yield from emit("U\talias\tu%d\t%s\t%s" % (cur, tag, "-" if rng.random() < 0.5 else tag + "y"))
            if rng.random() < 0.5:
                yield from emit("U\tpow\tu%d\t%d" % (cur, rng.choice([2, -1, 3])))
            how = rng.choice(["pickle", "json"])
            yield from emit("X\tpload\t%s\tn:%d" % (how, k) if False else "X\tpload\t%s\tn:%d\tu%d" % (how, k, cur),
                            {"what": "old-unit", "how": "old-" + how, "value": unit, "text": text})
        # quantities
        mt = magnitude_token(rng)
        res = yield from emit("X\tqnew\t%s\tu%d" % (mt, cur))
        if res.startswith("ok\tq"):
            qi = ctx.nq
            ctx.nq += 1
            q = ctx.sess.qs[-1]
            qtext = "%r %s" % (q.magnitude, text[:80])
            for how in rng.sample(Q_SAME, 2):
                res = yield from emit("X\tqreenter\t%s\tq%d" % (how, qi), {"what": "quantity", "how": how, "value": q, "text": qtext})
                if res.startswith("ok\tq"):
                    ctx.nq += 1
            for how in rng.sample(Q_TEXT, 2):
                line = "X\tqtext\t%s\tq%d" % (how, qi)
                exp = {"what": "quantity", "how": how, "value": q, "text": qtext}
                if classify_unit(q.unit)[0] is not None:
                    # text forms the Lean model declines (catalogued classes): run them after the
                    # correspondence part of the chunk, for the implementation oracle
                    deferred.append((line, exp))
                    continue
                res = yield from emit(line, exp)
                if res.startswith("ok\tq"):
                    ctx.nq += 1
    yield "STATE"
    for line, exp in deferred:
        res = yield from emit(line, exp)
        if res.startswith("ok\tq"):
            ctx.nq += 1
