#!/bin/bash
# usage: baseline.sh [tree]   (default /repo)
# Runs the repository's pinned test suite in <tree> (guard MEASURED_VERIF unset) and
# reports every BASELINE.json stable_pass test that did not pass. Exit 0 iff none missing.
T=${1:-/repo}
OUT=$(mktemp -d /tmp/baseline.XXXXXX)
unset MEASURED_VERIF
rm -rf "$T/.hypothesis"
( cd "$T" && PYTHONPATH="$T/src" /venv/bin/python -m pytest -q -p no:cacheprovider --timeout=900 \
    --continue-on-collection-errors --junitxml="$OUT/junit.xml" >"$OUT/pytest.out" 2>&1 )
python3 - "$OUT/junit.xml" <<'PY'
import json, sys, xml.etree.ElementTree as ET
sp=set(json.load(open('/root/.vp/BASELINE.json'))['stable_pass'])
t=ET.parse(sys.argv[1])
passed=set()
for tc in t.iter('testcase'):
    ok = not any(c.tag in ('failure','error','skipped') for c in tc)
    if ok: passed.add(f"{tc.get('classname')}::{tc.get('name')}")
missing=sorted(sp-passed)
print("stable_pass:",len(sp),"passed-in-stable:",len(sp&passed),"missing:",len(missing))
for m in missing[:30]: print("  ",m)
sys.exit(1 if missing else 0)
PY
rc=$?
rm -rf "$OUT" "$T/.hypothesis"
exit $rc
