/-
  Per-run obligations that lift C10 from the kernel-evaluated prefix pairs to EVERY prefix and EVERY
  state: on a flat dimension the path search is a pure function of the two graph tables
  (Proofs/Flat.lean), so a conversion between prefixed temperature units is
  `(A·(prefix(source)·m) + B) / prefix(target)` with `(A, B)` the affine map of the pure path between
  the two scale units — and those 16 maps (12 ordered pairs and the 4 identities) are checked here,
  by the kernel, against the exact definitions C = K − 273.15, F = R − 459.67, R = 9/5 K on the
  graph regenerated from /repo.
-/
import Proofs.Flat
import Proofs.Affine
import Obligations.C10
import Obligations.C04Near

namespace Measured.Obligations.FlatTemp
open Measured Measured.Obligations Measured.Obligations.NearShipped Generated St

def tempDim : Dim := init.dimOfUnit (uidOf "kelvin")

def tempDimOk : Bool :=
  decide (tempDim.weight ≤ 1) && !tempDim.isNumber && tempDim.isFactor tempDim && (tempDim.div tempDim).isNumber &&
    !tempDim.any (fun x => decide (x < 0))

def baseOk (u : UId) : Bool :=
  decide (u < init.units.length) && ((init.unit! u).pfx == Pfx.identity) && ((init.unit! u).factors == [(u, 1)]) &&
    (init.dimOfUnit u == tempDim)

/-- the affine map of the pure path between two scale units -/
def flatCoeffs (a b : UId) : Option (Rat × Rat) :=
  match flatPath shipped.ratios shipped.offsets a b with
  | .ok p => if p.isEmpty then none else some (affinePath 1 (1, 0) (p.map Hop.toV))
  | .error _ => none

def tol : Rat := 1 / 10 ^ 12

def flatTempCase (a b : String × Rat × Rat) : Bool :=
  match flatCoeffs (uidOf a.1) (uidOf b.1) with
  | none => false
  | some (A, B) => closeTo A (a.2.1 / b.2.1) tol 0 && closeTo B ((a.2.2 - b.2.2) / b.2.1) tol 1000

def flatTempAll : Bool :=
  tempDimOk && tempScales.all (fun a => baseOk (uidOf a.1) && tempScales.all (fun b => flatTempCase a b))

theorem flat_temperature_ok : flatTempAll = true := by decide +kernel

/-- the coefficients of the pair of scales, from the kernel-checked table -/
def coeffs (a b : String × Rat × Rat) : Rat × Rat := (flatCoeffs (uidOf a.1) (uidOf b.1)).getD (0, 0)

/-- a state of the shipped graph: same tables, unit table extended, invariants kept -/
structure ShippedState (c : Conv Rat) : Prop where
  near  : GraphNear lbS ubS σS c
  wf    : GraphWF c
  frame : CFrame shipped c

theorem shippedState_units (ops : List Op) : ShippedState { shipped with st := run shipped.st ops } := by
  obtain ⟨g, f⟩ := units_graphNear shipped_graphNear ops
  exact ⟨g, shipped_graphWF.frameN shipped_graphNear f, f⟩

/-- the core: one conversion between (prefixed) temperature scales in any state of the shipped graph — its value,
    and that the state it leaves is again a state of the shipped graph -/
theorem temperature_conversion_core {c₁ c' : Conv Rat} (hs : ShippedState c₁)
    {a b : String × Rat × Rat} (ha : a ∈ tempScales) (hb : b ∈ tempScales)
    {q r : Qty Rat} {t : UId} (hq : q.unit < c₁.st.units.length) (ht : t < c₁.st.units.length)
    (hsf : (c₁.st.unit! q.unit).factors = [(uidOf a.1, 1)]) (htf : (c₁.st.unit! t).factors = [(uidOf b.1, 1)])
    (h : CM.exec (convert q t) c₁ = (.ok r, c')) :
    r.unit = t ∧ flatCoeffs (uidOf a.1) (uidOf b.1) = some (coeffs a b) ∧
      closeTo (coeffs a b).1 (a.2.1 / b.2.1) tol 0 = true ∧
      closeTo (coeffs a b).2 ((a.2.2 - b.2.2) / b.2.1) tol 1000 = true ∧
      r.mag.val = ((coeffs a b).1 * (Pfx.val (c₁.st.unit! q.unit).pfx * q.mag.val) + (coeffs a b).2) *
        (1 / Pfx.val (c₁.st.unit! t).pfx) ∧
      ShippedState c' ∧ CFrame c₁ c' := by
  obtain ⟨g, w, f⟩ := hs
  have hall := flat_temperature_ok
  unfold flatTempAll at hall
  simp only [Bool.and_eq_true, List.all_eq_true] at hall
  obtain ⟨hdim, hall⟩ := hall
  obtain ⟨hba, hrow⟩ := hall a ha
  obtain ⟨hbb, _⟩ := hall b hb
  have hcase := hrow b hb
  unfold tempDimOk at hdim
  simp only [Bool.and_eq_true, decide_eq_true_eq, Bool.not_eq_true'] at hdim
  obtain ⟨⟨⟨⟨hw, hnn⟩, hfac⟩, hnum⟩, hneg⟩ := hdim
  unfold baseOk at hba hbb
  simp only [Bool.and_eq_true, decide_eq_true_eq, beq_iff_eq] at hba hbb
  obtain ⟨⟨⟨hu, hup⟩, huf⟩, hud⟩ := hba
  obtain ⟨⟨⟨hv, hvp⟩, hvf⟩, hvd⟩ := hbb
  have hu1 : uidOf a.1 < c₁.st.units.length := Nat.lt_of_lt_of_le hu f.ext.len
  have hv1 : uidOf b.1 < c₁.st.units.length := Nat.lt_of_lt_of_le hv f.ext.len
  have su := f.ext.same (uidOf a.1) hu
  have sv := f.ext.same (uidOf b.1) hv
  obtain ⟨hru, ⟨path, hfp, hne, hval⟩, hc'⟩ := convert_flat_single (d := tempDim) g w hq ht hu1 hv1 hsf htf
    ⟨su.1.trans hup, su.2.1.trans huf⟩ ⟨sv.1.trans hvp, sv.2.1.trans hvf⟩
    ((f.ext.dimOfUnit hu).trans hud) ((f.ext.dimOfUnit hv).trans hvd) hw hnn hfac hnum hneg h
  have hR : c₁.ratios = shipped.ratios := f.ratios
  have hO : c₁.offsets = shipped.offsets := f.offsets
  rw [hR, hO] at hfp
  have hpe : path.isEmpty = false := by
    cases path with
    | nil => exact absurd rfl hne
    | cons _ _ => rfl
  have hfc : flatCoeffs (uidOf a.1) (uidOf b.1) = some (affinePath 1 (1, 0) (path.map Hop.toV)) := by
    unfold flatCoeffs; rw [hfp]; simp only [hpe, Bool.false_eq_true, ↓reduceIte]
  have hco : coeffs a b = affinePath 1 (1, 0) (path.map Hop.toV) := by unfold coeffs; rw [hfc]; rfl
  unfold flatTempCase at hcase
  rw [hfc] at hcase
  simp only [Bool.and_eq_true] at hcase
  -- the state after the conversion
  obtain ⟨ga, fa⟩ := unprefixStepN g hq
  obtain ⟨gb, fb⟩ := unprefixStepN ga (fa.lt ht)
  have fab := fa.trans fb
  have wb := (w.frameN g fa).frameN ga fb
  refine ⟨hru, by rw [hfc, hco], by rw [hco]; exact hcase.1, by rw [hco]; exact hcase.2, ?_, ?_, ?_⟩
  · rw [hval, hco]
    have := applyPathV_affine 1 (path.map Hop.toV) 1 0 (Pfx.val (c₁.st.unit! q.unit).pfx * q.mag.val)
    rw [one_mul, add_zero] at this
    rw [this]
  · rw [hc']; exact ⟨gb, wb, f.trans fab⟩
  · rw [hc']; exact fab

/-- **C10 for every prefix, every magnitude and every state.**  After any public unit operations on the
    shipped registries, for any two units whose single factor is one of the four temperature scales
    (kelvin, celsius, Rankine, fahrenheit — with whatever prefixes), whatever `convert` returns is
    `(A·(prefix(source)·m) + B) / prefix(target)` with `(A, B)` within 10⁻¹² of the exact affine definition of
    the pair of scales (degree ratio `α`, zero shift `β`). -/
theorem temperature_conversions_all_prefixes (ops : List Op) {c₁ c' : Conv Rat}
    (hc₁ : c₁ = { shipped with st := run shipped.st ops })
    {a b : String × Rat × Rat} (ha : a ∈ tempScales) (hb : b ∈ tempScales)
    {q r : Qty Rat} {t : UId} (hq : q.unit < c₁.st.units.length) (ht : t < c₁.st.units.length)
    (hsf : (c₁.st.unit! q.unit).factors = [(uidOf a.1, 1)]) (htf : (c₁.st.unit! t).factors = [(uidOf b.1, 1)])
    (h : CM.exec (convert q t) c₁ = (.ok r, c')) :
    r.unit = t ∧ ∃ A B : Rat,
      closeTo A (a.2.1 / b.2.1) tol 0 = true ∧ closeTo B ((a.2.2 - b.2.2) / b.2.1) tol 1000 = true ∧
      r.mag.val = (A * (Pfx.val (c₁.st.unit! q.unit).pfx * q.mag.val) + B) * (1 / Pfx.val (c₁.st.unit! t).pfx) := by
  have hs : ShippedState c₁ := by rw [hc₁]; exact shippedState_units ops
  obtain ⟨h1, _, h3, h4, h5, _⟩ := temperature_conversion_core hs ha hb hq ht hsf htf h
  exact ⟨h1, _, _, h3, h4, h5⟩

/-! ### round trips -/

/-- there and back: the composed coefficients are the identity up to 10⁻¹² (ratio) and 10⁻⁹ (shift) -/
def rtCase (a b : String × Rat × Rat) : Bool :=
  closeTo ((coeffs b a).1 * (coeffs a b).1) 1 tol 0 &&
    decide (absRat ((coeffs b a).1 * (coeffs a b).2 + (coeffs b a).2) ≤ 1 / 10 ^ 9)

def rtAll : Bool := tempScales.all (fun a => tempScales.all (fun b => rtCase a b))

theorem round_trips_ok : rtAll = true := by decide +kernel

/-- **Round trips are identities up to rounding, for every prefix, magnitude and state**: converting a temperature to
    another scale (any prefixes) and the result back returns the magnitude within `10⁻¹²·|m| + 10⁻⁹/prefix`. -/
theorem temperature_round_trip (ops : List Op) {c₁ c₂ c₃ : Conv Rat}
    (hc₁ : c₁ = { shipped with st := run shipped.st ops })
    {a b : String × Rat × Rat} (ha : a ∈ tempScales) (hb : b ∈ tempScales)
    {q r r' : Qty Rat} {t : UId} (hq : q.unit < c₁.st.units.length) (ht : t < c₁.st.units.length)
    (hsf : (c₁.st.unit! q.unit).factors = [(uidOf a.1, 1)]) (htf : (c₁.st.unit! t).factors = [(uidOf b.1, 1)])
    (h₁ : CM.exec (convert q t) c₁ = (.ok r, c₂)) (h₂ : CM.exec (convert r q.unit) c₂ = (.ok r', c₃)) :
    r'.unit = q.unit ∧
      |r'.mag.val - q.mag.val| ≤ tol * |q.mag.val| + (1 / 10 ^ 9) / Pfx.val (c₁.st.unit! q.unit).pfx := by
  have hs : ShippedState c₁ := by rw [hc₁]; exact shippedState_units ops
  obtain ⟨hu1, _, _, _, hv1, hs2, f12⟩ := temperature_conversion_core hs ha hb hq ht hsf htf h₁
  have hq2 := f12.lt hq
  have ht2 := f12.lt ht
  have hsf2 : (c₂.st.unit! r.unit).factors = [(uidOf b.1, 1)] := by
    rw [hu1, (f12.ext.same t ht).2.1]; exact htf
  have htf2 : (c₂.st.unit! q.unit).factors = [(uidOf a.1, 1)] := by
    rw [(f12.ext.same q.unit hq).2.1]; exact hsf
  obtain ⟨hu2, _, _, _, hv2, _, _⟩ := temperature_conversion_core hs2 hb ha (by rw [hu1]; exact ht2) hq2 hsf2 htf2 h₂
  refine ⟨hu2, ?_⟩
  have hrt := round_trips_ok
  unfold rtAll at hrt
  simp only [List.all_eq_true] at hrt
  have hc := hrt a ha b hb
  unfold rtCase closeTo at hc
  simp only [Bool.and_eq_true, decide_eq_true_eq] at hc
  obtain ⟨hA, hB⟩ := hc
  obtain ⟨hA1, hA2⟩ := absRat_le hA
  obtain ⟨hB1, hB2⟩ := absRat_le hB
  have pq : 0 < Pfx.val (c₁.st.unit! q.unit).pfx := Pfx.val_pos (canon_pfx hs.near.canon hq)
  have pt : 0 < Pfx.val (c₁.st.unit! t).pfx := Pfx.val_pos (canon_pfx hs.near.canon ht)
  have e1 : (c₂.st.unit! r.unit).pfx = (c₁.st.unit! t).pfx := by rw [hu1]; exact f12.pfx ht
  have e2 : (c₂.st.unit! q.unit).pfx = (c₁.st.unit! q.unit).pfx := f12.pfx hq
  rw [e1, e2, hv1] at hv2
  -- r' − m = (A₂A₁ − 1)·m + (A₂B₁ + B₂)/p
  have hdiff : r'.mag.val - q.mag.val =
      ((coeffs b a).1 * (coeffs a b).1 - 1) * q.mag.val +
        ((coeffs b a).1 * (coeffs a b).2 + (coeffs b a).2) / Pfx.val (c₁.st.unit! q.unit).pfx := by
    rw [hv2]
    field_simp
    ring
  have habs1 : absRat 1 = 1 := by unfold absRat; norm_num
  rw [habs1, add_zero, mul_one] at hA1 hA2
  rw [hdiff]
  have hm : |((coeffs b a).1 * (coeffs a b).1 - 1) * q.mag.val| ≤ tol * |q.mag.val| := by
    rw [abs_mul]
    exact mul_le_mul_of_nonneg_right (abs_le.2 ⟨hA1, hA2⟩) (abs_nonneg _)
  have hsft : |((coeffs b a).1 * (coeffs a b).2 + (coeffs b a).2) / Pfx.val (c₁.st.unit! q.unit).pfx| ≤
      (1 / 10 ^ 9) / Pfx.val (c₁.st.unit! q.unit).pfx := by
    rw [abs_div, abs_of_pos pq]
    exact div_le_div_of_nonneg_right (abs_le.2 ⟨hB1, hB2⟩) (le_of_lt pq)
  exact le_trans (abs_add_le _ _) (add_le_add hm hsft)

/-! ### route independence, and sums / differences -/

/-- going through a third scale: the composed coefficients are the direct ones up to 10⁻¹² / 10⁻⁹ -/
def routeCase (b w a : String × Rat × Rat) : Bool :=
  closeTo ((coeffs w a).1 * (coeffs b w).1) (coeffs b a).1 tol 0 &&
    decide (absRat ((coeffs w a).1 * (coeffs b w).2 + (coeffs w a).2 - (coeffs b a).2) ≤ 1 / 10 ^ 9)

def routeAll : Bool := tempScales.all (fun b => tempScales.all (fun w => tempScales.all (fun a => routeCase b w a)))

theorem routes_ok : routeAll = true := by decide +kernel

/-- **A temperature does not change when it is re-expressed on another scale first** (C06's clause for the offset
    scales, C05's route independence): converting `b` to a scale `w` and the result to the target gives what the
    direct conversion gives, within `(10⁻¹²·|A|·|prefix(b)·m| + 10⁻⁹)/prefix(target)` — every triple of scales, all
    prefixes, all magnitudes, all states. -/
theorem temperature_route_independent (ops : List Op) {c₁ c₁' c₂ c₃ : Conv Rat}
    (hc₁ : c₁ = { shipped with st := run shipped.st ops })
    {b w a : String × Rat × Rat} (hb : b ∈ tempScales) (hw : w ∈ tempScales) (ha : a ∈ tempScales)
    {q r r' d : Qty Rat} {tw t : UId}
    (hq : q.unit < c₁.st.units.length) (htw : tw < c₁.st.units.length) (ht : t < c₁.st.units.length)
    (hqf : (c₁.st.unit! q.unit).factors = [(uidOf b.1, 1)]) (hwf : (c₁.st.unit! tw).factors = [(uidOf w.1, 1)])
    (htf : (c₁.st.unit! t).factors = [(uidOf a.1, 1)])
    (hd : CM.exec (convert q t) c₁ = (.ok d, c₁'))
    (h₁ : CM.exec (convert q tw) c₁ = (.ok r, c₂)) (h₂ : CM.exec (convert r t) c₂ = (.ok r', c₃)) :
    |r'.mag.val - d.mag.val| ≤
      (tol * |(coeffs b a).1| * |Pfx.val (c₁.st.unit! q.unit).pfx * q.mag.val| + 1 / 10 ^ 9) / Pfx.val (c₁.st.unit! t).pfx := by
  have hs : ShippedState c₁ := by rw [hc₁]; exact shippedState_units ops
  obtain ⟨_, _, _, _, hvd, _, _⟩ := temperature_conversion_core hs hb ha hq ht hqf htf hd
  obtain ⟨hu1, _, _, _, hv1, hs2, f12⟩ := temperature_conversion_core hs hb hw hq htw hqf hwf h₁
  have hsf2 : (c₂.st.unit! r.unit).factors = [(uidOf w.1, 1)] := by
    rw [hu1, (f12.ext.same tw htw).2.1]; exact hwf
  have htf2 : (c₂.st.unit! t).factors = [(uidOf a.1, 1)] := by
    rw [(f12.ext.same t ht).2.1]; exact htf
  obtain ⟨_, _, _, _, hv2, _, _⟩ := temperature_conversion_core hs2 hw ha (by rw [hu1]; exact f12.lt htw) (f12.lt ht) hsf2 htf2 h₂
  have hrt := routes_ok
  unfold routeAll at hrt
  simp only [List.all_eq_true] at hrt
  have hc := hrt b hb w hw a ha
  unfold routeCase closeTo at hc
  simp only [Bool.and_eq_true, decide_eq_true_eq] at hc
  obtain ⟨hA, hB⟩ := hc
  obtain ⟨hA1, hA2⟩ := absRat_le hA
  obtain ⟨hB1, hB2⟩ := absRat_le hB
  have pt : 0 < Pfx.val (c₁.st.unit! t).pfx := Pfx.val_pos (canon_pfx hs.near.canon ht)
  have pw : 0 < Pfx.val (c₁.st.unit! tw).pfx := Pfx.val_pos (canon_pfx hs.near.canon htw)
  have e1 : (c₂.st.unit! r.unit).pfx = (c₁.st.unit! tw).pfx := by rw [hu1]; exact f12.pfx htw
  have e2 : (c₂.st.unit! t).pfx = (c₁.st.unit! t).pfx := f12.pfx ht
  rw [e1, e2, hv1] at hv2
  have habsA : absRat (coeffs b a).1 = |(coeffs b a).1| := by
    unfold absRat; split
    · next h => rw [abs_of_neg h]
    · next h => rw [abs_of_nonneg (not_lt.1 h)]
  rw [habsA, add_zero] at hA1 hA2
  have hdiff : r'.mag.val - d.mag.val =
      (((coeffs w a).1 * (coeffs b w).1 - (coeffs b a).1) * (Pfx.val (c₁.st.unit! q.unit).pfx * q.mag.val) +
        ((coeffs w a).1 * (coeffs b w).2 + (coeffs w a).2 - (coeffs b a).2)) / Pfx.val (c₁.st.unit! t).pfx := by
    rw [hv2, hvd]
    field_simp
    ring
  rw [hdiff, abs_div, abs_of_pos pt]
  apply div_le_div_of_nonneg_right _ (le_of_lt pt)
  have hm : |((coeffs w a).1 * (coeffs b w).1 - (coeffs b a).1) * (Pfx.val (c₁.st.unit! q.unit).pfx * q.mag.val)| ≤
      tol * |(coeffs b a).1| * |Pfx.val (c₁.st.unit! q.unit).pfx * q.mag.val| := by
    rw [abs_mul]
    exact mul_le_mul_of_nonneg_right (abs_le.2 ⟨hA1, hA2⟩) (abs_nonneg _)
  exact le_trans (abs_add_le _ _) (add_le_add hm (abs_le.2 ⟨hB1, hB2⟩))

/-- `a − b` on temperature scales is `a.magnitude − (b written in a's unit)`: the model of `Quantity.__sub__`,
    with the closed form of the conversion -/
theorem temperature_sub (ops : List Op) {c₁ c' : Conv Rat}
    (hc₁ : c₁ = { shipped with st := run shipped.st ops })
    {sa sb : String × Rat × Rat} (ha : sa ∈ tempScales) (hb : sb ∈ tempScales)
    {a b r : Qty Rat} (hau : a.unit < c₁.st.units.length) (hbu : b.unit < c₁.st.units.length)
    (haf : (c₁.st.unit! a.unit).factors = [(uidOf sa.1, 1)]) (hbf : (c₁.st.unit! b.unit).factors = [(uidOf sb.1, 1)])
    (h : CM.exec (Qty.sub a b) c₁ = (.ok r, c')) :
    r.unit = a.unit ∧
      r.mag.val = a.mag.val - ((coeffs sb sa).1 * (Pfx.val (c₁.st.unit! b.unit).pfx * b.mag.val) + (coeffs sb sa).2) *
        (1 / Pfx.val (c₁.st.unit! a.unit).pfx) := by
  have hs : ShippedState c₁ := by rw [hc₁]; exact shippedState_units ops
  unfold Qty.sub at h
  obtain ⟨b', c2, h1, h2⟩ := exec_bind_ok h
  rw [exec_pure] at h2
  simp only [Prod.mk.injEq, Except.ok.injEq] at h2
  obtain ⟨rfl, _⟩ := h2
  obtain ⟨_, _, _, _, hv, _, _⟩ := temperature_conversion_core hs hb ha hbu hau hbf haf h1
  exact ⟨rfl, by rw [val_sub, hv]⟩

/-! ### inhabited: 25 kilo-celsius in milli-fahrenheit, on the regenerated registries -/

def kiloP : Pfx := ⟨10, 3⟩
def milliP : Pfx := ⟨10, -3⟩
def tOps : List Op := [Op.pmul kiloP (uidOf "celsius"), Op.pmul milliP (uidOf "fahrenheit")]
def cT : Conv Rat := { shipped with st := run shipped.st tOps }
def kC : UId := match (shipped.st.pmulUnit kiloP (uidOf "celsius")).2 with | .ok i => i | .error _ => 0
def mF : UId := match ((shipped.st.pmulUnit kiloP (uidOf "celsius")).1.pmulUnit milliP (uidOf "fahrenheit")).2 with
  | .ok i => i | .error _ => 0
def q25 : Qty Rat := ⟨.int 25, kC⟩

def tempCheck : Bool :=
  (match (CM.exec (convert q25 mF) cT).1 with
   | .ok r => decide (r.unit = mF)
   | .error _ => false) &&
  decide (kC < cT.st.units.length) && decide (mF < cT.st.units.length) &&
  ((cT.st.unit! kC).factors == [(uidOf "celsius", 1)]) && ((cT.st.unit! mF).factors == [(uidOf "fahrenheit", 1)]) &&
  ((cT.st.unit! kC).pfx == kiloP) && ((cT.st.unit! mF).pfx == milliP)

theorem temp_evaluates : tempCheck = true := by decide +kernel

set_option maxRecDepth 8000 in
/-- 25 k°C → m°F: the theorem applies (prefixes on both sides, offsets on the path °C → K → °R → °F) and
    gives `result = (A·(1000·25) + B)·1000` with `A ≈ 9/5`, `B ≈ 32` — 45 032 000 m°F. -/
theorem temperature_inhabited :
    ∃ (r : Qty Rat) (c' : Conv Rat) (A B : Rat), CM.exec (convert q25 mF) cT = (.ok r, c') ∧
      closeTo A (9 / 5) tol 0 = true ∧ closeTo B 32 tol 1000 = true ∧
      r.mag.val = (A * (1000 * 25) + B) * 1000 := by
  have hc := temp_evaluates
  unfold tempCheck at hc
  simp only [Bool.and_eq_true, decide_eq_true_eq, beq_iff_eq] at hc
  obtain ⟨⟨⟨⟨⟨⟨hconv, hq⟩, ht⟩, hsf⟩, htf⟩, hp1⟩, hp2⟩ := hc
  cases h1 : CM.exec (convert q25 mF) cT with
  | mk r1 c' =>
    cases r1 with
    | error e => rw [h1] at hconv; simp at hconv
    | ok r =>
      obtain ⟨_, A, B, hA, hB, hv⟩ := temperature_conversions_all_prefixes tOps (c₁ := cT) rfl
        (a := ("celsius", 1, 27315 / 100)) (b := ("fahrenheit", 5 / 9, 45967 / 100 * (5 / 9)))
        (by simp [tempScales]) (by simp [tempScales]) (q := q25) (t := mF) hq ht hsf htf h1
      refine ⟨r, c', A, B, rfl, ?_, ?_, ?_⟩
      · have : ((1 : Rat) / (5 / 9)) = 9 / 5 := by norm_num
        rw [← this]; exact hA
      · have : ((27315 / 100 - 45967 / 100 * (5 / 9)) / (5 / 9) : Rat) = 32 := by norm_num
        rw [← this]; exact hB
      · rw [hv]
        have e1 : Pfx.val (cT.st.unit! q25.unit).pfx = 1000 := by
          show Pfx.val (cT.st.unit! kC).pfx = 1000
          rw [hp1]; norm_num [Pfx.val, kiloP]
        have e2 : Pfx.val (cT.st.unit! mF).pfx = 1 / 1000 := by
          rw [hp2]; norm_num [Pfx.val, milliP]
        rw [e1, e2]
        show (A * (1000 * ((25 : Int) : Rat)) + B) * (1 / (1 / 1000)) = _
        norm_num

end Measured.Obligations.FlatTemp
