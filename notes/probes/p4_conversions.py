import itertools, random, math, sys, pickle, collections
from measured import *
from measured import systems, conversions
from measured.conversions import ConversionNotFound
sizes = pickle.load(open("sizes.pkl","rb"))
from measured.si import Radian
sizes['radian']=1.0
import math as m
sizes['degree']=m.pi/180; sizes['arcminute']=m.pi/10800; sizes['arcsecond']=m.pi/648000; sizes['gradian']=m.pi/200; sizes['Furman']=2*m.pi/65536
named = [u for u in set(Unit._by_name.values()) if all(f.name in sizes for f in u.factors) ]
def usize(u):
    s = float(u.prefix.quantify())
    for f,e in u.factors.items():
        s *= sizes[f.name]**e
    return s
by_dim = collections.defaultdict(list)
for u in named:
    if u.name in ('celsius','fahrenheit'): continue
    by_dim[u.dimension].append(u)
random.seed(int(sys.argv[1]) if len(sys.argv)>1 else 0)
prefixes = [IdentityPrefix]*4 + list(Prefix._by_name.values())
def rand_side(dims_needed=None):
    k = random.randint(1,3)
    us = random.sample(named, k)
    u = One
    for x in us:
        e = random.choice([-3,-2,-1,1,1,2,3])
        u = u * (random.choice(prefixes)*x)**e
    return u
# build pairs with same dimension: pick a random unit, then replace each factor with another unit of same dimension
stats = collections.Counter()
fails = []
for i in range(4000):
    k = random.randint(1,3)
    a = One; b = One
    for _ in range(k):
        x = random.choice(named)
        if x.name in ('celsius','fahrenheit'): continue
        y = random.choice(by_dim[x.dimension])
        e = random.choice([-3,-2,-1,1,1,2,3])
        a = a * (random.choice(prefixes)*x)**e
        b = b * (random.choice(prefixes)*y)**e
    if a.dimension is not b.dimension: 
        stats['dimmismatch']+=1; continue
    try:
        q = (1.0*a).in_unit(b)
    except ConversionNotFound:
        stats['notfound']+=1; continue
    except Exception as ex:
        stats['EXC '+type(ex).__name__]+=1
        if len(fails)<60: fails.append(('exc', type(ex).__name__, str(a), str(b)))
        continue
    expected = usize(a)/usize(b)
    deg = sum(abs(e) for e in a.factors.values())+sum(abs(e) for e in b.factors.values())
    if q.unit is not b: stats['wrongunit']+=1
    rel = abs(q.magnitude/expected-1) if expected else 0
    if rel > 1e-5*max(deg,1):
        stats['WRONG']+=1
        if len(fails)<60: fails.append(('wrong', str(a), str(b), q.magnitude, expected))
    else:
        stats['ok']+=1
print(stats)
for f in fails: print(f)
