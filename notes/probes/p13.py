import random, sys, collections
from measured import *
from measured import systems
random.seed(int(sys.argv[1]) if len(sys.argv)>1 else 0)
bases = sorted(Unit._base, key=lambda u:u.name)
named = sorted(set(Unit._by_name.values()), key=lambda u:u.name)
prefixes = [p for p in Prefix._by_name.values() if p.base==10] + [IdentityPrefix]
fresh = [Length.unit(f"fresh{i}", f"fr{i}") for i in range(3)]
def nf_unit(u):  # independent normal form from stored factors+prefix
    return (u.prefix.base if u.prefix.exponent else 0, u.prefix.exponent, frozenset((f.name,e) for f,e in u.factors.items() if f is not One))
def gen(depth):
    """returns (thunk, nf) nf = (pexp, Counter)"""
    if depth==0 or random.random()<0.3:
        u = random.choice(named+fresh) if random.random()<0.8 else random.choice(prefixes)*random.choice(named)
        c = collections.Counter({f.name:e for f,e in u.factors.items() if f is not One})
        return (lambda u=u: u), (u.prefix.exponent, c), str(u)
    op = random.choice(['mul','div','pow','rootpow'])
    if op in('mul','div'):
        (fa,(pa,ca),sa),(fb,(pb,cb),sb) = gen(depth-1), gen(depth-1)
        c = collections.Counter(ca)
        for k,v in cb.items(): c[k] += v if op=='mul' else -v
        p = pa+pb if op=='mul' else pa-pb
        return ((lambda: fa()*fb()) if op=='mul' else (lambda: fa()/fb())), (p, c), f"({sa} {op} {sb})"
    if op=='pow':
        fa,(pa,ca),sa = gen(depth-1); n=random.choice([-3,-2,-1,0,1,2,3])
        return (lambda: fa()**n), (pa*n, collections.Counter({k:v*n for k,v in ca.items()})), f"({sa})^{n}"
    fa,(pa,ca),sa = gen(depth-1); n=random.choice([-3,-2,2,3])
    return (lambda: (fa()**n).root(n)), (pa, ca), f"root{n}(({sa})^{n})"
def clean(c): return frozenset((k,v) for k,v in c.items() if v)
bad=0; seen={}
for i in range(20000):
    f,(p,c),s = gen(3)
    try: u=f()
    except Exception as e:
        print("EXC", type(e).__name__, e, s); bad+=1; continue
    key=(p,clean(c))
    got=(u.prefix.exponent, frozenset((f_.name,e) for f_,e in u.factors.items() if f_ is not One))
    if got!=key: print("NF mismatch", s, got, key); bad+=1
    if key in seen and seen[key] is not u: print("IDENTITY", s); bad+=1
    seen[key]=u
    # dims
    d = Number
    for f_,e in u.factors.items(): d = d*f_.dimension**e
    if d is not u.dimension: print("DIM", s, u.dimension, d); bad+=1
    if bad>10: break
print("bad", bad, "distinct", len(seen))
