/-
  Proofs/Repeat.lean — C08 on the proved fragment: the value a conversion returns does not depend on
  what happened in between.  `Steps σ c c'` is any sequence of unit operations, size-consistent
  declarations, directly settled conversions and conversions between simple units leading from `c`
  to `c'`; a conversion asked in `c` and asked again in `c'` (both exact by the theorems of
  PathSound / PlanSimple) returns the same magnitude.
-/
import Proofs.ReachSimple

namespace Measured
open St

variable {σ : UId → Rat}

inductive Steps (σ : UId → Rat) : Conv Rat → Conv Rat → Prop
  | refl (c : Conv Rat) : Steps σ c c
  | units {c c1 : Conv Rat} (ops : List Op) : Steps σ c c1 → Steps σ c { c1 with st := run c1.st ops }
  | equate {c c1 c' : Conv Rat} {a b : Qty Rat} : Steps σ c c1 →
      a.unit < c1.st.units.length → b.unit < c1.st.units.length →
      a.mag.val * unitSz σ c1.st a.unit = b.mag.val * unitSz σ c1.st b.unit →
      c1.st.dimOfUnit a.unit = c1.st.dimOfUnit b.unit →
      CM.exec (Measured.equate a b) c1 = (.ok (), c') → Steps σ c c'
  | direct {c c1 c' c2 : Conv Rat} {q r : Qty Rat} {t : UId} {p : List (Hop Rat)} : Steps σ c c1 →
      q.unit < c1.st.units.length → t < c1.st.units.length →
      CM.exec (convert q t) c1 = (.ok r, c') →
      CM.exec (findPath q.unit t) { c1 with st := ((c1.st.unprefixedUnit q.unit).1.unprefixedUnit t).1 } = (.ok p, c2) →
      p ≠ [] → Steps σ c c'
  | simple {c c1 c' : Conv Rat} {q r : Qty Rat} {t : UId} {K : List Dim} {plan : List (Rough Rat)} : Steps σ c c1 →
      q.unit < c1.st.units.length → t < c1.st.units.length → SimplePair σ K c1 q.unit t plan →
      CM.exec (convert q t) c1 = (.ok r, c') → Steps σ c c'

/-- steps only extend the intern table, and lead from reachable states to reachable states -/
theorem steps_spec (hσ : ∀ k, σ k ≠ 0) {c c' : Conv Rat} (h : Steps σ c c') (hr : Reach2 σ c) :
    Reach2 σ c' ∧ Ext c.st c'.st := by
  induction h with
  | refl => exact ⟨hr, Ext.refl _⟩
  | units ops _ ih =>
    obtain ⟨r1, e1⟩ := ih
    exact ⟨Reach2.units ops r1, e1.trans (run_ext _ _)⟩
  | equate _ ha hb hc hd hx ih =>
    obtain ⟨r1, e1⟩ := ih
    obtain ⟨g1, _, _⟩ := reach2_graphOK hσ r1
    obtain ⟨_, e2, _⟩ := equate_graphOK g1 ha hb hc hx
    exact ⟨Reach2.equate r1 ha hb hc hd hx, e1.trans e2⟩
  | direct _ hq ht hx hp hne ih =>
    obtain ⟨r1, e1⟩ := ih
    obtain ⟨g1, o1, _⟩ := reach2_graphOK hσ r1
    obtain ⟨_, d, c2', hfp, hd⟩ := convert_direct_exact hσ g1 hq ht o1 hx
    rw [hp] at hfp
    simp only [Prod.mk.injEq, Except.ok.injEq] at hfp
    obtain ⟨rfl, rfl⟩ := hfp
    obtain ⟨_, _, f⟩ := hd hne
    exact ⟨Reach2.direct r1 hq ht hx hp hne, e1.trans f.ext⟩
  | simple _ hq ht hsp hx ih =>
    obtain ⟨r1, e1⟩ := ih
    obtain ⟨g1, o1, w1⟩ := reach2_graphOK hσ r1
    obtain ⟨_, _, _, f⟩ := convert_simple_exact hσ hsp.keys hsp.light g1 w1 o1 hq ht hsp.srcOK hsp.dstOK hsp.paired hx
    exact ⟨Reach2.simple r1 hq ht hsp hx, e1.trans f.ext⟩

/-- **The outcome does not depend on the history (simple units).**  Ask a conversion, do anything
    (unit operations, consistent declarations, other conversions — successful ones of the proved
    kinds), ask again: the same magnitude. -/
theorem simple_conversion_repeatable (hσ : ∀ k, σ k ≠ 0) {c c1 c' c'' : Conv Rat} (hr : Reach2 σ c)
    {q r1 r2 : Qty Rat} {t : UId} {K K' : List Dim} {plan plan' : List (Rough Rat)}
    (hq : q.unit < c.st.units.length) (ht : t < c.st.units.length)
    (hsp : SimplePair σ K c q.unit t plan)
    (h1 : CM.exec (convert q t) c = (.ok r1, c1))
    (hsteps : Steps σ c c')
    (hsp' : SimplePair σ K' c' q.unit t plan')
    (h2 : CM.exec (convert q t) c' = (.ok r2, c'')) :
    r2.mag.val = r1.mag.val ∧ r2.unit = r1.unit := by
  obtain ⟨hg, ho, hw⟩ := reach2_graphOK hσ hr
  obtain ⟨hr', hext⟩ := steps_spec hσ hsteps hr
  obtain ⟨hg', ho', hw'⟩ := reach2_graphOK hσ hr'
  obtain ⟨u1, e1, _, _⟩ := convert_simple_exact hσ hsp.keys hsp.light hg hw ho hq ht hsp.srcOK hsp.dstOK hsp.paired h1
  have hq' := Nat.lt_of_lt_of_le hq hext.len
  have ht' := Nat.lt_of_lt_of_le ht hext.len
  obtain ⟨u2, e2, _, _⟩ := convert_simple_exact hσ hsp'.keys hsp'.light hg' hw' ho' hq' ht' hsp'.srcOK hsp'.dstOK hsp'.paired h2
  refine ⟨?_, by rw [u1, u2]⟩
  rw [hext.unitSz hq, hext.unitSz ht] at e2
  have hs := unitSz_ne_zero hσ hg.canon ht
  have : r2.mag.val * unitSz σ c.st t = r1.mag.val * unitSz σ c.st t := by rw [e2, e1]
  exact mul_right_cancel₀ hs this

end Measured
