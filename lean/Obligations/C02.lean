/-
  Per-run obligation for C02: the shipped registries form a canonical table.
-/
import Props.C02
import Obligations.C01

namespace Measured.Obligations
open Measured

theorem init_canon : Canon Generated.init := checkCanon_sound (by decide +kernel)

/-- C02 instantiated at the shipped registries: equal denotations give one object in every
    history that starts from the imported library. -/
theorem shipped_eval_canonical {e₁ e₂ : UExpr}
    (h₁ : ExprOK Generated.init e₁) (h₂ : ExprOK Generated.init e₂)
    (hd : SameDen Generated.init e₁ e₂) (ops₁ ops₂ : List Op) (i j : UId)
    (r₁ : (e₁.eval (run Generated.init ops₁)).2 = .ok i)
    (r₂ : (e₂.eval (run (e₁.eval (run Generated.init ops₁)).1 ops₂)).2 = .ok j) : i = j :=
  C02.eval_canonical init_ginv init_canon h₁ h₂ hd ops₁ ops₂ i j r₁ r₂

end Measured.Obligations
