/-
  Proofs/GroupLaws.lean — the abelian-group laws at the level of expression denotations
  (prefix part and exponent-map part), used with `eval_canonical` to obtain object identity.
-/
import Proofs.CanonAll

namespace Measured
open St UExpr

/-- Two expressions denote the same element: whenever both prefix denotations exist they
    coincide, and the exponent maps agree away from `One`. -/
def SameDen (base : St) (e₁ e₂ : UExpr) : Prop :=
  (∀ p₁ p₂, e₁.pfxDenote base = .ok p₁ → e₂.pfxDenote base = .ok p₂ → p₁ = p₂) ∧
  ∀ k, k ≠ base.one → e₁.expDenote base k = e₂.expDenote base k

theorem pfxDenote_normal {base : St} (hb : ∀ u ∈ base.units, u.pfx.Normal) (e : UExpr)
    (hr : ∀ r ∈ e.refs, r < base.units.length) (hp : ∀ p ∈ e.pfxs, p.Normal) :
    ∀ q, e.pfxDenote base = .ok q → q.Normal := by
  induction e with
  | ref i =>
    intro q hq; simp only [pfxDenote] at hq; injection hq with hq; subst hq
    exact hb _ (unit!_mem (hr i (by simp [refs])))
  | mul a b iha ihb =>
    intro q hq
    simp only [pfxDenote] at hq
    cases ha : a.pfxDenote base with
    | error e => rw [ha] at hq; cases hq
    | ok x =>
      cases hb' : b.pfxDenote base with
      | error e => rw [ha, hb'] at hq; cases hq
      | ok y =>
        rw [ha, hb'] at hq
        exact Pfx.mul_normal (iha (fun r h => hr r (by simp [refs, h])) (fun p h => hp p (by simp [pfxs, h])) x ha)
          (ihb (fun r h => hr r (by simp [refs, h])) (fun p h => hp p (by simp [pfxs, h])) y hb') hq
  | div a b iha ihb =>
    intro q hq
    simp only [pfxDenote] at hq
    cases ha : a.pfxDenote base with
    | error e => rw [ha] at hq; cases hq
    | ok x =>
      cases hb' : b.pfxDenote base with
      | error e => rw [ha, hb'] at hq; cases hq
      | ok y =>
        rw [ha, hb'] at hq
        exact Pfx.div_normal (iha (fun r h => hr r (by simp [refs, h])) (fun p h => hp p (by simp [pfxs, h])) x ha)
          (ihb (fun r h => hr r (by simp [refs, h])) (fun p h => hp p (by simp [pfxs, h])) y hb') hq
  | pow a n iha =>
    intro q hq
    simp only [pfxDenote] at hq
    cases ha : a.pfxDenote base with
    | error e => rw [ha] at hq; cases hq
    | ok x =>
      rw [ha] at hq; injection hq with hq; subst hq
      exact Pfx.pow_normal (iha (fun r h => hr r (by simp [refs, h])) (fun p h => hp p (by simp [pfxs, h])) x ha) n
  | root a n iha =>
    intro q hq
    simp only [pfxDenote] at hq
    cases ha : a.pfxDenote base with
    | error e => rw [ha] at hq; cases hq
    | ok x =>
      rw [ha] at hq
      by_cases hn : (n == 0) = true
      · simp only [hn, ↓reduceIte] at hq; injection hq with hq; subst hq; exact Pfx.normal_identity
      · simp only [hn, Bool.false_eq_true, ↓reduceIte] at hq
        have hx := iha (fun r h => hr r (by simp [refs, h])) (fun p h => hp p (by simp [pfxs, h])) x ha
        have : x.root n = .ok q := hq
        exact Pfx.root_normal hx this
  | pfx p a iha =>
    intro q hq
    simp only [pfxDenote] at hq
    cases ha : a.pfxDenote base with
    | error e => rw [ha] at hq; cases hq
    | ok x =>
      rw [ha] at hq
      exact Pfx.mul_normal (iha (fun r h => hr r (by simp [refs, h])) (fun p' h => hp p' (by simp [pfxs, h])) x ha)
        (hp p (by simp [pfxs])) hq

end Measured

namespace Measured
open St UExpr

structure ExprOK (base : St) (e : UExpr) : Prop where
  refs : ∀ r ∈ e.refs, r < base.units.length
  pfxs : ∀ p ∈ e.pfxs, p.Normal

theorem ExprOK.normal {base : St} (hc : Canon base) {e : UExpr} (h : ExprOK base e) {q : Pfx}
    (hq : e.pfxDenote base = .ok q) : q.Normal :=
  pfxDenote_normal hc.pfxNormal e h.refs h.pfxs q hq

/-! inversion of `pfxDenote` -/

theorem pfxDenote_mul_inv {base : St} {a b : UExpr} {p : Pfx} (h : (UExpr.mul a b).pfxDenote base = .ok p) :
    ∃ x y, a.pfxDenote base = .ok x ∧ b.pfxDenote base = .ok y ∧ Pfx.mul x y = .ok p := by
  simp only [pfxDenote] at h
  cases ha : a.pfxDenote base with
  | error e => rw [ha] at h; cases h
  | ok x =>
    cases hb : b.pfxDenote base with
    | error e => rw [ha, hb] at h; cases h
    | ok y => rw [ha, hb] at h; exact ⟨x, y, rfl, rfl, h⟩

theorem pfxDenote_div_inv {base : St} {a b : UExpr} {p : Pfx} (h : (UExpr.div a b).pfxDenote base = .ok p) :
    ∃ x y, a.pfxDenote base = .ok x ∧ b.pfxDenote base = .ok y ∧ Pfx.div x y = .ok p := by
  simp only [pfxDenote] at h
  cases ha : a.pfxDenote base with
  | error e => rw [ha] at h; cases h
  | ok x =>
    cases hb : b.pfxDenote base with
    | error e => rw [ha, hb] at h; cases h
    | ok y => rw [ha, hb] at h; exact ⟨x, y, rfl, rfl, h⟩

theorem pfxDenote_pow_inv {base : St} {a : UExpr} {n : Int} {p : Pfx} (h : (UExpr.pow a n).pfxDenote base = .ok p) :
    ∃ x, a.pfxDenote base = .ok x ∧ p = x.pow n := by
  simp only [pfxDenote] at h
  cases ha : a.pfxDenote base with
  | error e => rw [ha] at h; cases h
  | ok x => rw [ha] at h; injection h with h; exact ⟨x, rfl, h.symm⟩

theorem pfxDenote_root_inv {base : St} {a : UExpr} {n : Int} (hn : n ≠ 0) {p : Pfx}
    (h : (UExpr.root a n).pfxDenote base = .ok p) :
    ∃ x, a.pfxDenote base = .ok x ∧ x.root n = .ok p := by
  simp only [pfxDenote] at h
  have hn0 : (n == 0) = false := by simpa using hn
  cases ha : a.pfxDenote base with
  | error e => rw [ha] at h; cases h
  | ok x =>
    rw [ha] at h
    simp only [hn0, Bool.false_eq_true, ↓reduceIte] at h
    exact ⟨x, rfl, h⟩

variable {base : St}

theorem den_mul_comm (hc : Canon base) {x y : UExpr} (hx : ExprOK base x) (hy : ExprOK base y) :
    SameDen base (.mul x y) (.mul y x) := by
  refine ⟨?_, fun k _ => by simp only [expDenote]; omega⟩
  intro p₁ p₂ h1 h2
  obtain ⟨a, b, ha, hb, hm⟩ := pfxDenote_mul_inv h1
  obtain ⟨b', a', hb', ha', hm'⟩ := pfxDenote_mul_inv h2
  rw [ha] at ha'; rw [hb] at hb'
  injection ha' with ha'; injection hb' with hb'; subst ha'; subst hb'
  rw [Pfx.mul_comm (hx.normal hc ha) (hy.normal hc hb), hm'] at hm
  injection hm with hm; exact hm.symm

theorem den_mul_assoc (hc : Canon base) {x y z : UExpr} (hx : ExprOK base x) (hy : ExprOK base y)
    (hz : ExprOK base z) : SameDen base (.mul (.mul x y) z) (.mul x (.mul y z)) := by
  refine ⟨?_, fun k _ => by simp only [expDenote]; omega⟩
  intro p₁ p₂ h1 h2
  obtain ⟨ab, c, hab, hcz, hm1⟩ := pfxDenote_mul_inv h1
  obtain ⟨a, b, ha, hb, hmab⟩ := pfxDenote_mul_inv hab
  obtain ⟨a', bc, ha', hbc, hm2⟩ := pfxDenote_mul_inv h2
  obtain ⟨b', c', hb', hc', hmbc⟩ := pfxDenote_mul_inv hbc
  rw [ha] at ha'; rw [hb] at hb'; rw [hcz] at hc'
  injection ha' with ha'; injection hb' with hb'; injection hc' with hc'
  subst ha'; subst hb'; subst hc'
  have := Pfx.mul_assoc (hx.normal hc ha) (hy.normal hc hb) (hz.normal hc hcz) hmab hmbc
  rw [this, hm2] at hm1
  injection hm1 with hm1; exact hm1.symm

theorem den_one_mul (hc : Canon base) {x : UExpr} (hx : ExprOK base x) :
    SameDen base (.mul (.ref base.one) x) x := by
  obtain ⟨_, o2, o3⟩ := hc.oneRec
  refine ⟨?_, ?_⟩
  · intro p₁ p₂ h1 h2
    obtain ⟨a, b, ha, hb, hm⟩ := pfxDenote_mul_inv h1
    simp only [pfxDenote, o2] at ha
    injection ha with ha; subst ha
    rw [hb] at h2; injection h2 with h2; subst h2
    rw [Pfx.identity_mul (hx.normal hc hb)] at hm
    injection hm with hm; exact hm.symm
  · intro k hk
    simp only [expDenote, o3]
    have : ¬ base.one = k := fun e => hk e.symm
    simp [this]

theorem den_mul_inv (hc : Canon base) {x : UExpr} (hx : ExprOK base x) :
    SameDen base (.mul x (.pow x (-1))) (.ref base.one) := by
  obtain ⟨_, o2, o3⟩ := hc.oneRec
  refine ⟨?_, ?_⟩
  · intro p₁ p₂ h1 h2
    obtain ⟨a, b, ha, hb, hm⟩ := pfxDenote_mul_inv h1
    obtain ⟨a', ha', hb''⟩ := pfxDenote_pow_inv hb
    rw [ha] at ha'; injection ha' with ha'; subst ha'
    subst hb''
    rw [Pfx.mul_pow_neg_self (hx.normal hc ha)] at hm
    simp only [pfxDenote, o2] at h2
    injection hm with hm; injection h2 with h2
    rw [← hm, ← h2]
  · intro k hk
    simp only [expDenote, o3]
    have : ¬ base.one = k := fun e => hk e.symm
    simp [this]; omega

theorem den_div_eq_mul_inv (hc : Canon base) {x y : UExpr} (_hx : ExprOK base x) (hy : ExprOK base y) :
    SameDen base (.div x y) (.mul x (.pow y (-1))) := by
  refine ⟨?_, fun k _ => by simp only [expDenote]; omega⟩
  intro p₁ p₂ h1 h2
  obtain ⟨a, b, ha, hb, hd⟩ := pfxDenote_div_inv h1
  obtain ⟨a', b', ha', hb', hm⟩ := pfxDenote_mul_inv h2
  obtain ⟨b'', hb'', hbp⟩ := pfxDenote_pow_inv hb'
  rw [ha] at ha'; rw [hb] at hb''
  injection ha' with ha'; injection hb'' with hb''; subst ha'; subst hb''; subst hbp
  rw [Pfx.div_eq_mul_pow (hy.normal hc hb), hm] at hd
  injection hd with hd; exact hd.symm

theorem den_pow_add (hc : Canon base) {x : UExpr} (hx : ExprOK base x) (m n : Int) :
    SameDen base (.mul (.pow x m) (.pow x n)) (.pow x (m + n)) := by
  refine ⟨?_, fun k _ => by simp only [expDenote, Int.mul_add]⟩
  intro p₁ p₂ h1 h2
  obtain ⟨a, b, ha, hb, hm⟩ := pfxDenote_mul_inv h1
  obtain ⟨u, hu, hap⟩ := pfxDenote_pow_inv ha
  obtain ⟨v, hv, hbp⟩ := pfxDenote_pow_inv hb
  obtain ⟨w, hw, hcp⟩ := pfxDenote_pow_inv h2
  rw [hu] at hv hw; injection hv with hv; injection hw with hw; subst hv; subst hw
  subst hap; subst hbp; subst hcp
  rw [Pfx.pow_add (hx.normal hc hu)] at hm
  injection hm with hm; exact hm.symm

theorem den_pow_mul (hc : Canon base) {x : UExpr} (hx : ExprOK base x) (m n : Int) :
    SameDen base (.pow (.pow x m) n) (.pow x (m * n)) := by
  refine ⟨?_, fun k _ => by simp only [expDenote, Int.mul_assoc]⟩
  intro p₁ p₂ h1 h2
  obtain ⟨a, ha, hap⟩ := pfxDenote_pow_inv h1
  obtain ⟨u, hu, hup⟩ := pfxDenote_pow_inv ha
  obtain ⟨w, hw, hcp⟩ := pfxDenote_pow_inv h2
  rw [hu] at hw; injection hw with hw; subst hw
  subst hap; subst hup; subst hcp
  exact Pfx.pow_mul (hx.normal hc hu) m n

theorem den_root_pow (hc : Canon base) {x : UExpr} (hx : ExprOK base x) {n : Int} (hn : n ≠ 0) :
    SameDen base (.root (.pow x n) n) x := by
  refine ⟨?_, ?_⟩
  · intro p₁ p₂ h1 h2
    obtain ⟨a, ha, hr⟩ := pfxDenote_root_inv hn h1
    obtain ⟨u, hu, hup⟩ := pfxDenote_pow_inv ha
    rw [hu] at h2; injection h2 with h2; subst h2; subst hup
    rw [Pfx.root_pow (hx.normal hc hu) hn] at hr
    injection hr with hr; exact hr.symm
  · intro k _
    simp only [expDenote, hn, ↓reduceIte]
    rw [Int.fdiv_eq_ediv_of_dvd (Int.dvd_mul_left _ _), Int.mul_ediv_cancel _ hn]

end Measured
