/-
  Proofs/StepInv.lean — every public operation preserves the C01 invariant and only
  extends the intern table.
-/
import Proofs.Inv

namespace Measured
open St

variable {s : St}

theorem inv_unit (h : Inv s) {a : Nat} (ha : a < s.units.length) :
    ValidF s (s.unit! a).factors ∧ (s.unit! a).dim = s.dimOf (s.unit! a).factors ∧
    (s.unit! a).dim.length = s.ndim :=
  ⟨h.1.facValid _ (unit!_mem ha), h.2 _ (unit!_mem ha), h.1.dimLen _ (unit!_mem ha)⟩

/-! ### multiplication, division, power -/

theorem mulUnit_inv (h : Inv s) {a b : Nat} (ha : a < s.units.length) (hb : b < s.units.length) :
    Inv (s.mulUnit a b).1 := by
  unfold mulUnit
  simp only
  split
  · exact h
  · obtain ⟨va, da, _⟩ := inv_unit h ha
    obtain ⟨vb, db, _⟩ := inv_unit h hb
    apply newUnit_inv h
    · exact validF_simplify h.1 (validF_mergeAdd va vb)
    · rw [dimOf_simplify h.1 (validF_mergeAdd va vb), dimOf_mergeAdd h.1 va vb, da, db]

theorem divUnit_inv (h : Inv s) {a b : Nat} (ha : a < s.units.length) (hb : b < s.units.length) :
    Inv (s.divUnit a b).1 := by
  unfold divUnit
  simp only
  split
  · exact h
  · obtain ⟨va, da, _⟩ := inv_unit h ha
    obtain ⟨vb, db, _⟩ := inv_unit h hb
    have vn := validF_negate vb
    apply newUnit_inv h
    · exact validF_simplify h.1 (validF_mergeAdd va vn)
    · rw [dimOf_simplify h.1 (validF_mergeAdd va vn), dimOf_mergeAdd h.1 va vn,
        dimOf_negate h.1 vb, da, db, Dim.div_eq_mul_pow]

theorem powUnit_inv (h : Inv s) {a : Nat} (ha : a < s.units.length) (n : Int) :
    Inv (s.powUnit a n).1 := by
  unfold powUnit
  obtain ⟨va, da, _⟩ := inv_unit h ha
  have vm : ValidF s ((s.unit! a).factors.map (fun p => (p.1, p.2 * n))) := validF_map (· * n) va
  apply newUnit_inv h
  · exact validF_simplify h.1 vm
  · rw [dimOf_simplify h.1 vm, dimOf_scale h.1 va, da]

/-! ### root -/

/-- When every non-`One` exponent is divisible, flooring and re-scaling is the identity on
    the dimension. -/
theorem dimOf_rootScale (h : WF s) {fs : Factors} (hv : ValidF s fs) {n : Int}
    (hdiv : ∀ f ∈ fs, f.1 ≠ s.one → f.2 % n = 0) :
    (s.dimOf (fs.map (fun f => (f.1, Int.fdiv f.2 n)))).pow n = s.dimOf fs := by
  induction fs with
  | nil => simp [dimOf_nil, Dim.number_pow]
  | cons p rest ih =>
    have h2 : ValidF s rest := fun g hg => hv g (List.mem_cons_of_mem _ hg)
    have hd2 : ∀ f ∈ rest, f.1 ≠ s.one → f.2 % n = 0 := fun f hf => hdiv f (List.mem_cons_of_mem _ hf)
    simp only [List.map_cons, dimOf_cons]
    rw [Dim.mul_pow, ih h2 hd2, Dim.pow_mul]
    by_cases h1 : p.1 = s.one
    · rw [h1, h.oneNum, Dim.number_pow, Dim.number_pow]
    · have hm := hdiv p List.mem_cons_self h1
      have hdvd := Int.dvd_of_emod_eq_zero hm
      rw [Int.fdiv_eq_ediv_of_dvd hdvd, Int.ediv_mul_cancel hdvd]

theorem rootUnit_inv (h : Inv s) {a : Nat} (ha : a < s.units.length) (n : Int) :
    Inv (s.rootUnit a n).1 := by
  unfold rootUnit
  split
  · exact h
  · next hn0 =>
    simp only
    split
    · exact h
    · next d hroot =>
      split
      · exact h
      · split
        · exact h
        · next hall =>
          have hn : n ≠ 0 := by simpa using hn0
          obtain ⟨va, da, la⟩ := inv_unit h ha
          have vm : ValidF s ((s.unit! a).factors.map (fun f => (f.1, Int.fdiv f.2 n))) :=
            validF_map (fun e => Int.fdiv e n) va
          apply newUnit_inv h
          · exact validF_simplify h.1 vm
          · rw [dimOf_simplify h.1 vm]
            have hdiv : ∀ f ∈ (s.unit! a).factors, f.1 ≠ s.one → f.2 % n = 0 := by
              intro f hf hne
              simp only [Bool.not_eq_true, List.any_eq_false, Bool.and_eq_false_iff] at hall
              rcases hall f hf with h1 | h1
              · simp at h1; exact absurd h1 hne
              · simpa using h1
            apply Dim.pow_inj hn
            · rw [Dim.root_length hroot, la, dimOf_length h.1 vm]
            · rw [Dim.root_pow hn hroot, dimOf_rootScale h.1 va hdiv, da]

/-! ### as_ratio, quantify, prefix application -/

theorem newUnit_two_inv (h : Inv s) (p q : Pfx) {f1 f2 : Factors}
    (v1 : ValidF s f1) (v2 : ValidF s f2) :
    Inv ((s.newUnit p f1 (s.dimOf f1)).1.newUnit q f2 ((s.newUnit p f1 (s.dimOf f1)).1.dimOf f2)).1 := by
  have h1 := newUnit_inv h p v1 rfl
  have e1 := newUnit_ext s p f1 (s.dimOf f1)
  exact newUnit_inv h1 q (e1.validF v2) rfl

theorem asRatio_inv (h : Inv s) {a : Nat} (ha : a < s.units.length) : Inv (s.asRatio a).1 := by
  obtain ⟨va, _, _⟩ := inv_unit h ha
  have one : ValidF s [(s.one, (1 : Int))] := by
    intro f hf; simp at hf; subst hf; exact h.1.oneLt
  unfold asRatio
  simp only
  apply newUnit_two_inv h
  · split
    · exact one
    · exact validF_filter _ va
  · split
    · exact one
    · exact validF_map (fun e => -e) (validF_filter _ va)

theorem unprefixedUnit_inv (h : Inv s) {a : Nat} (ha : a < s.units.length) :
    Inv (s.unprefixedUnit a).1 := by
  unfold unprefixedUnit
  obtain ⟨va, da, _⟩ := inv_unit h ha
  exact newUnit_inv h _ va da

theorem pmulUnit_inv (h : Inv s) (p : Pfx) {a : Nat} (ha : a < s.units.length) :
    Inv (s.pmulUnit p a).1 := by
  unfold pmulUnit
  simp only
  split
  · exact h
  · obtain ⟨va, da, _⟩ := inv_unit h ha
    exact newUnit_inv h _ va da

end Measured

namespace Measured
open St

variable {s : St}

/-! ### naming: only the name/symbol registries change -/

theorem bindName_units (s : St) (a : Nat) (name : Option String) :
    (s.bindName a name).units = s.units ∧ (s.bindName a name).ndim = s.ndim ∧
    (s.bindName a name).one = s.one := by
  unfold bindName
  cases name with
  | none => exact ⟨rfl, rfl, rfl⟩
  | some n => simp only; split <;> exact ⟨rfl, rfl, rfl⟩

theorem bindSym_units (s : St) (a : Nat) (sym : Option String) :
    (s.bindSym a sym).units = s.units ∧ (s.bindSym a sym).ndim = s.ndim ∧
    (s.bindSym a sym).one = s.one := by
  unfold bindSym
  cases sym with
  | none => exact ⟨rfl, rfl, rfl⟩
  | some n => simp only; split <;> exact ⟨rfl, rfl, rfl⟩

theorem aliasUnit_units (s : St) (a : Nat) (name sym : Option String) :
    (s.aliasUnit a name sym).1.units = s.units ∧ (s.aliasUnit a name sym).1.ndim = s.ndim ∧
    (s.aliasUnit a name sym).1.one = s.one := by
  unfold aliasUnit
  split
  · exact ⟨rfl, rfl, rfl⟩
  · split
    · exact ⟨rfl, rfl, rfl⟩
    · obtain ⟨a1, a2, a3⟩ := bindName_units s a name
      obtain ⟨b1, b2, b3⟩ := bindSym_units (s.bindName a name) a sym
      exact ⟨b1.trans a1, b2.trans a2, b3.trans a3⟩

/-- `Inv` only reads `units`, `ndim` and `one`. -/
theorem inv_congr {s s' : St} (hu : s'.units = s.units) (hn : s'.ndim = s.ndim)
    (ho : s'.one = s.one) (h : Inv s) : Inv s' := by
  have hd : ∀ i, s'.dimOfUnit i = s.dimOfUnit i := by
    intro i; unfold dimOfUnit unit!; rw [hu]
  have hdo : ∀ fs, s'.dimOf fs = s.dimOf fs := by
    intro fs
    induction fs with
    | nil => simp [dimOf_nil, hn]
    | cons p rest ih => simp only [dimOf_cons, ih, hd]
  obtain ⟨hw, hok⟩ := h
  refine ⟨⟨?_, ?_, ?_, ?_⟩, ?_⟩
  · intro u hu'; rw [hu] at hu'; rw [hn]; exact hw.dimLen u hu'
  · intro u hu' f hf; rw [hu] at hu' ⊢; exact hw.facValid u hu' f hf
  · rw [hu, ho]; exact hw.oneLt
  · rw [ho, hd, hn]; exact hw.oneNum
  · intro u hu'; rw [hu] at hu'; rw [hdo]; exact hok u hu'

theorem ext_congr {s s' : St} (hu : s'.units = s.units) (hn : s'.ndim = s.ndim)
    (ho : s'.one = s.one) : Ext s s' := by
  refine ⟨hn, ho, by rw [hu]; exact Nat.le_refl _, fun i _ => ?_⟩
  unfold unit!; rw [hu]; exact ⟨rfl, rfl, rfl⟩

theorem aliasUnit_inv (h : Inv s) (a : Nat) (name sym : Option String) :
    Inv (s.aliasUnit a name sym).1 := by
  obtain ⟨hu, hn, ho⟩ := aliasUnit_units s a name sym
  exact inv_congr hu hn ho h

theorem aliasUnit_ext (s : St) (a : Nat) (name sym : Option String) :
    Ext s (s.aliasUnit a name sym).1 := by
  obtain ⟨hu, hn, ho⟩ := aliasUnit_units s a name sym
  exact ext_congr hu hn ho

/-! ### defining a base unit -/

theorem appendBase_ext (s : St) (d : Dim) : Ext s (s.appendBase d) := by
  refine ⟨rfl, rfl, by simp [appendBase], fun i hi => ?_⟩
  have := @unit!_append_old s ({ pfx := Pfx.identity, factors := [(s.units.length, 1)], dim := d } : UnitRec) i hi
  unfold unit! appendBase at *
  simp only at this ⊢
  rw [this]; exact ⟨rfl, rfl, rfl⟩

theorem dimOf_self_base {s : St} {d : Dim} (hd : d.length = s.ndim) :
    (s.appendBase d).dimOf [(s.units.length, 1)] = d := by
  rw [dimOf_cons, dimOf_nil]
  unfold dimOfUnit unit! appendBase
  simp only
  rw [getD_eq_getElem' _ _ (by simp)]
  simp only [List.getElem_append_right (Nat.le_refl _), Nat.sub_self, List.getElem_cons_zero]
  rw [Dim.pow_one, ← hd, Dim.mul_number]

theorem appendBase_inv (h : Inv s) {d : Dim} (hd : d.length = s.ndim) : Inv (s.appendBase d) := by
  obtain ⟨hw, hok⟩ := h
  have hext := appendBase_ext s d
  have hunits : (s.appendBase d).units = s.units ++ [({ pfx := Pfx.identity, factors := [(s.units.length, 1)], dim := d } : UnitRec)] := rfl
  refine ⟨⟨?_, ?_, ?_, ?_⟩, ?_⟩
  · intro u hu
    rw [hunits] at hu
    rcases List.mem_append.1 hu with hu | hu
    · exact hw.dimLen u hu
    · simp at hu; subst hu; exact hd
  · intro u hu
    rw [hunits] at hu
    rcases List.mem_append.1 hu with hu | hu
    · exact hext.validF (hw.facValid u hu)
    · simp at hu; subst hu
      intro f hf; simp at hf; subst hf; simp [appendBase]
  · show s.one < _
    rw [hunits]; simp; exact Nat.lt_succ_of_lt hw.oneLt
  · have := (hext.same s.one hw.oneLt).2.2
    show St.dimOfUnit _ s.one = _
    unfold dimOfUnit; rw [this]; exact hw.oneNum
  · intro u hu
    rw [hunits] at hu
    rcases List.mem_append.1 hu with hu | hu
    · rw [hext.dimOf (hw.facValid u hu)]; exact hok u hu
    · simp at hu; subst hu
      exact (dimOf_self_base hd).symm

theorem defineUnit_inv (h : Inv s) {d : Dim} (hd : d.length = s.ndim) (name sym : String) :
    Inv (s.defineUnit d name sym).1 := by
  unfold defineUnit
  split
  · exact h
  · split
    · exact h
    · split
      · exact h
      · exact aliasUnit_inv (appendBase_inv h hd) _ _ _

theorem defineUnit_ext (s : St) (d : Dim) (name sym : String) : Ext s (s.defineUnit d name sym).1 := by
  unfold defineUnit
  split
  · exact Ext.refl s
  · split
    · exact Ext.refl s
    · split
      · exact Ext.refl s
      · exact (appendBase_ext s d).trans (aliasUnit_ext _ _ _ _)

theorem deriveUnit_inv (h : Inv s) (a : Nat) (name sym : String) :
    Inv (s.deriveUnit a name sym).1 := by
  unfold deriveUnit
  have := aliasUnit_inv h a (some name) (some sym)
  split <;> simp_all

theorem lookup_mem {β} {k : String} {l : List (String × β)} {v : β} (h : lookup k l = some v) :
    (k, v) ∈ l := by
  induction l with
  | nil => simp [lookup] at h
  | cons p rest ih =>
    obtain ⟨k', v'⟩ := p
    unfold lookup at h
    split at h
    · next hk => simp at hk h; subst hk; subst h; exact List.mem_cons_self
    · exact List.mem_cons_of_mem _ (ih h)

end Measured

namespace Measured
open St

variable {s : St}

/-- Registry well-formedness: every name/symbol is bound to an existing unit. -/
def Reg (s : St) : Prop :=
  (∀ e ∈ s.unitBySym, e.2 < s.units.length) ∧ (∀ e ∈ s.unitByName, e.2 < s.units.length) ∧
  (∀ e ∈ s.pfxBySym, (e.2.base = 0 ↔ e.2.exp = 0))

theorem go_some {s : St} {cs : List Char} {i fuel : Nat} {p : Pfx} {u : UId}
    (h : resolveSymbol.go s cs i fuel = some (p, u)) :
    (∃ k, lookup k s.unitBySym = some u) ∧ (∃ k, lookup k s.pfxBySym = some p) := by
  induction fuel generalizing i with
  | zero => simp [resolveSymbol.go] at h
  | succ fuel ih =>
    unfold resolveSymbol.go at h
    split at h
    · cases h
    · split at h
      · next p' u' hp hu =>
        injection h with h; injection h with h1 h2; subst h1; subst h2; exact ⟨⟨_, hu⟩, ⟨_, hp⟩⟩
      · exact ih h

theorem resolveSymbol_inv (h : Inv s) (hr : Reg s) (text : String) : Inv (s.resolveSymbol text).1 := by
  unfold resolveSymbol
  split
  · exact h
  · simp only
    split
    · next p u hgo =>
      obtain ⟨⟨k, hk⟩, _⟩ := go_some hgo
      exact pmulUnit_inv h p (hr.1 _ (lookup_mem hk))
    · split <;> exact h

/-! ### the registries stay well-formed -/

theorem Reg.mono {s s' : St} (hr : Reg s) (hs : s'.unitBySym = s.unitBySym) (hn : s'.unitByName = s.unitByName)
    (hp : s'.pfxBySym = s.pfxBySym) (hl : s.units.length ≤ s'.units.length) : Reg s' := by
  refine ⟨?_, ?_, ?_⟩
  · intro e he; rw [hs] at he; exact Nat.lt_of_lt_of_le (hr.1 e he) hl
  · intro e he; rw [hn] at he; exact Nat.lt_of_lt_of_le (hr.2.1 e he) hl
  · intro e he; rw [hp] at he; exact hr.2.2 e he

theorem newUnit_reg {s : St} (hr : Reg s) (p : Pfx) (fs : Factors) (d : Dim) : Reg (s.newUnit p fs d).1 := by
  have hl := (newUnit_ext s p fs d).len
  unfold newUnit at hl ⊢
  split
  · exact hr
  · next hnone => simp only [hnone] at hl; exact hr.mono rfl rfl rfl hl

theorem bindName_reg {s : St} (hr : Reg s) {a : Nat} (ha : a < s.units.length) (name : Option String) :
    Reg (s.bindName a name) := by
  unfold bindName
  cases name with
  | none => exact hr
  | some n =>
    simp only
    split
    · exact hr
    · refine ⟨hr.1, ?_, hr.2.2⟩
      intro e he
      simp only at he
      split at he
      · exact hr.2.1 e he
      · rcases List.mem_append.1 he with he | he
        · exact hr.2.1 e he
        · simp at he; subst he; exact ha

theorem bindSym_reg {s : St} (hr : Reg s) {a : Nat} (ha : a < s.units.length) (sym : Option String) :
    Reg (s.bindSym a sym) := by
  unfold bindSym
  cases sym with
  | none => exact hr
  | some n =>
    simp only
    split
    · exact hr
    · refine ⟨?_, hr.2⟩
      intro e he
      simp only at he
      split at he
      · exact hr.1 e he
      · rcases List.mem_append.1 he with he | he
        · exact hr.1 e he
        · simp at he; subst he; exact ha

theorem aliasUnit_reg {s : St} (hr : Reg s) {a : Nat} (ha : a < s.units.length) (name sym : Option String) :
    Reg (s.aliasUnit a name sym).1 := by
  unfold aliasUnit
  split
  · exact hr
  · split
    · exact hr
    · have h1 := bindName_reg hr ha name
      have hu := (bindName_units s a name).1
      exact bindSym_reg h1 (by rw [hu]; exact ha) sym

end Measured
