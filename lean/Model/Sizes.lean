/-
  Model/Sizes.lean — unit sizes from declared equivalences (C09, and the oracle side of C04).

  A *certificate* assigns a positive rational size to every base unit.  The size of any unit
  is then prefix value × ∏ size(base)^exponent.  `checkDecls` verifies that every declared
  equivalence `ma·ua = mb·ub` holds for these sizes within a relative tolerance: `tight` for
  ordinary declarations, `loose` for the declarations listed as inexact (rounded constants
  in the source), and it reports the first offending declaration otherwise.
-/
import Model.Graph

namespace Measured

/-- size certificate: base-unit ordinal ↦ (numerator, denominator) -/
abbrev SizeCert := List (UId × Nat × Nat)

def SizeCert.get (c : SizeCert) (u : UId) : Option Rat :=
  match c.find? (fun e => e.1 == u) with
  | some e => if e.2.2 == 0 || e.2.1 == 0 then none else some ((e.2.1 : Rat) / (e.2.2 : Rat))
  | none => none

/-- exact value of a prefix -/
def Pfx.ratValue (p : Pfx) : Rat := ipow ((p.base : Nat) : Rat) p.exp

/-- size of a (possibly compound, possibly prefixed) unit; `none` when a base unit has no size -/
def unitSize (s : St) (c : SizeCert) (u : UId) : Option Rat :=
  let r := s.unit! u
  r.factors.foldl (fun acc f =>
    match acc with
    | none => none
    | some v =>
      if f.1 == s.one then some v else
      match c.get f.1 with
      | none => none
      | some x => some (v * ipow x f.2)) (some (Pfx.ratValue r.pfx))

def absRat (x : Rat) : Rat := if x < 0 then -x else x

/-- `|x / y - 1| ≤ tol`, written without division: `|x - y| ≤ tol * |y|`. -/
def relClose (x y tol : Rat) : Bool := decide (absRat (x - y) ≤ tol * absRat y)

inductive DeclVerdict where
  | ok
  | unsized (index : Nat)
  | inconsistent (index : Nat)
  deriving DecidableEq, Repr

/-- Declaration `d` as `(ma, σ(ua), mb, σ(ub))`: it states `ma·ua = mb·ub`. -/
def declParts (s : St) (c : SizeCert) : Decl → Option (Rat × Rat × Rat × Rat)
  | .equate ma ua mb ub =>
    match unitSize s c ua, unitSize s c ub with
    | some x, some y => some (ma.toRat, x, mb.toRat, y)
    | _, _ => none
  | .translate scale _ zu =>
    match unitSize s c scale, unitSize s c zu with
    | some x, some y => some (1, x, 1, y)
    | _, _ => none

/-- One declaration holds within `tol`: all four numbers positive and
    `|ma·σa − mb·σb| ≤ tol · mb·σb`. -/
def declHolds (tol : Rat) (q : Rat × Rat × Rat × Rat) : Bool :=
  decide (0 < q.1) && decide (0 < q.2.1) && decide (0 < q.2.2.1) && decide (0 < q.2.2.2) &&
  relClose (q.1 * q.2.1) (q.2.2.1 * q.2.2.2) tol

/-- Check every declaration; `inexact` lists the indices allowed the `loose` tolerance and
    `excluded` the indices of listed known findings (not checked, reported separately). -/
def checkDecls (s : St) (c : SizeCert) (tight loose : Rat) (inexact excluded : List Nat) :
    List Decl → Nat → DeclVerdict
  | [], _ => .ok
  | d :: rest, i =>
    if excluded.contains i then checkDecls s c tight loose inexact excluded rest (i + 1) else
    match declParts s c d with
    | none => .unsized i
    | some q =>
      if declHolds (if inexact.contains i then loose else tight) q then
        checkDecls s c tight loose inexact excluded rest (i + 1)
      else .inconsistent i

/-- The final graph: every stored ratio `_ratios[a][b] = r` means `1 a = r b`. -/
def checkGraph (s : St) (c : SizeCert) (loose : Rat) (excludedPairs : List (UId × UId)) :
    List (UId × UId × Raw) → Option (UId × UId)
  | [] => none
  | (a, b, r) :: rest =>
    if excludedPairs.contains (a, b) then checkGraph s c loose excludedPairs rest else
    match unitSize s c a, unitSize s c b with
    | some x, some y =>
      if relClose x (r.toRat * y) loose then checkGraph s c loose excludedPairs rest else some (a, b)
    | _, _ => some (a, b)

def flattenTable (t : Table Raw) : List (UId × UId × Raw) :=
  t.flatMap (fun row => row.2.map (fun c => (row.1, c.1, c.2)))

/-- Which base units can be sized from the seeds by following declarations: a base unit
    becomes known when some declaration mentions it with every other base unit known. -/
def knownAfter (s : St) (decls : List Decl) : Nat → List UId → List UId
  | 0, known => known
  | fuel + 1, known =>
    let basesOf (u : UId) : List UId := ((s.unit! u).factors.map (·.1)).filter (· != s.one)
    let step := decls.foldl (fun (kn : List UId) d =>
      let (ua, ub) := match d with
        | .equate _ ua _ ub => (ua, ub)
        | .translate sc _ zu => (sc, zu)
      let all := basesOf ua ++ basesOf ub
      let unknown := (all.filter (fun b => !kn.contains b)).eraseDups
      match unknown with
      | [b] => kn ++ [b]
      | _ => kn) known
    if step.length == known.length then known else knownAfter s decls fuel step

end Measured
