/-
  Per-run obligations for C13 over the registries regenerated from /repo.

  * `collisionList`         the complete list of (prefix symbol, unit symbol) whose concatenation the
                            MODEL's `resolveSymbol` does not resolve to prefix·unit, over all ≈ 5 000
                            same-base pairs.  (Kernel evaluation of 5 000 string resolutions exceeds
                            ten minutes, so this list is computed by the compiled driver on every run
                            and compared by the harness with the list the REAL `Unit.resolve_symbol`
                            gives: a table-level correspondence, not a theorem.)
  * `symbols_lex`           every registered symbol is exactly one SYMBOL token;
  * `init_base_factors`, `init_terms_ok`, `shipped_units_render_to_themselves`
                            `C13.rendered_terms_are_the_unit` instantiated at the shipped state:
                            for every shipped unit with a pushable prefix the rendered terms evaluate,
                            after any history, to that very unit;
  * `family_round_trip`     (a test, evaluated by the kernel) prefix·unit^e for a spread of the
                            table: build, `str`, lex, LR-parse, transform — the same object.
-/
import Props.C13
import Obligations.C02
import Generated.Symbols
import Generated.Grammar
import Proofs.MagVal

namespace Measured.Obligations
open Measured Generated St

/-- every registered symbol is exactly one SYMBOL token of the shipped grammar -/
def symbolMatcher : Matcher :=
  match shipped.grammar.patterns.find? (fun k => k.1 == "SYMBOL") with
  | some k => matcherOf k.2.1 k.2.2
  | none => noMatch

theorem symbols_lex :
    init.unitBySym.all (fun e => symbolMatcher e.1.toList == some e.1.toList.length) = true := by
  decide +kernel

/-- decidable `BaseFactors` -/
def checkBaseFactors (s : St) (u : UnitRec) : Bool :=
  u.factors.all (fun f => (s.unit! f.1).pfx == Pfx.identity && (s.unit! f.1).factors == [(f.1, 1)])

theorem checkBaseFactors_sound {s : St} {u : UnitRec} (h : checkBaseFactors s u = true) : BaseFactors s u := by
  intro f hf
  unfold checkBaseFactors at h
  have := List.all_eq_true.mp h f hf
  simp only [Bool.and_eq_true, beq_iff_eq] at this
  exact this

theorem init_base_factors : init.units.all (fun u => checkBaseFactors init u) = true := by decide +kernel

/-- decidable `ExprOK` for the rendered terms of a unit -/
def checkTermsOK (s : St) (u : UnitRec) : Bool :=
  match unitTermList u with
  | .error _ => true
  | .ok ts =>
    (termsExpr s.one ts).refs.all (fun r => decide (r < s.units.length)) &&
    (termsExpr s.one ts).pfxs.all (fun p => decide (p.base = 0 ↔ p.exp = 0))

theorem init_terms_ok : init.units.all (fun u => checkTermsOK init u) = true := by decide +kernel

/-- **C13 at the shipped state**: every shipped unit whose prefix is pushable is what its own
    rendered terms evaluate to, after any history of operations. -/
theorem shipped_units_render_to_themselves (i : UId) (hi : i < init.units.length)
    (ts : List (Pfx × UId × Int)) (ht : unitTermList (init.unit! i) = .ok ts)
    (ops : List Op) (j : UId)
    (r : ((termsExpr init.one ts).eval (run init ops)).2 = .ok j) : j = i := by
  have hmem := St.unit!_mem hi
  have hb := checkBaseFactors_sound (List.all_eq_true.mp init_base_factors _ hmem)
  have hk := List.all_eq_true.mp init_terms_ok _ hmem
  unfold checkTermsOK at hk
  rw [ht] at hk
  simp only [Bool.and_eq_true, List.all_eq_true, decide_eq_true_eq] at hk
  exact C13.rendered_terms_are_the_unit init_ginv init_canon hi hb ht ⟨hk.1, hk.2⟩ ops j r

theorem init_baseInv : BaseInv init := by
  intro u hu f hf
  have hb := checkBaseFactors_sound (List.all_eq_true.mp init_base_factors u hu) f hf
  have hv := init_ginv.1.1.facValid u hu f hf
  exact ⟨hv, hb.1, hb.2⟩

/-- **C13 for every state reachable from the imported library**: whatever history created the unit,
    if its prefix is pushable its rendered terms evaluate — after any further history — to that unit. -/
theorem reachable_units_render_to_themselves (ops₁ : List Op) (i : UId) (hi : i < (run init ops₁).units.length)
    (ts : List (Pfx × UId × Int)) (ht : unitTermList ((run init ops₁).unit! i) = .ok ts)
    (ops₂ : List Op) (j : UId)
    (r : ((termsExpr (run init ops₁).one ts).eval (run (run init ops₁) ops₂)).2 = .ok j) : j = i :=
  C13.rendered_terms_are_the_unit_reachable init_ginv init_canon init_baseInv ops₁ hi ht ops₂ j r

/-- one family case: (p · u)^e built by the arithmetic, rendered, lexed, parsed, transformed -/
def roundTripCase (c : Nat × Int × UId × Int) : Bool :=
  let s0 := init
  match s0.pmulUnit ⟨c.1, c.2.1⟩ c.2.2.1 with
  | (s1, .ok a) =>
    let (s2, b) := s1.powUnit a c.2.2.2
    match unitStrPure s2 b with
    | .error _ => true                       -- unpushable prefix: catalogued class, nothing to parse
    | .ok text =>
      let lc := shipped.grammar.lexConf
      match parseWith shipped.grammar.table shipped.grammar.rules shipped.grammar.startUnit shipped.grammar.endUnit
              lc (transformerAct (α := Rat)) Val.tok s2 text with
      | (_, .ok (.unit u)) => u == b
      | _ => false
  | _ => true

theorem family_round_trip : roundTripFamily.all roundTripCase = true := by decide +kernel

end Measured.Obligations
