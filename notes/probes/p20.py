from measured import *
from measured import systems, conversions
from measured.si import *
from measured.us import *
from measured.energy import *
import traceback
def show(a,b, expect=None):
    try:
        r=(1.0*a).in_unit(b); print(a,"->",b,":",r.magnitude, "expected", expect)
        plan = conversions._plan_conversion(a,b)
        for ratio, path, exp in plan[1:]:
            print("     step ratio=%r exp=%r path=%s" % (ratio, exp, [(s,str(u)) for s,o,u in path]))
    except Exception as e:
        tb = traceback.extract_tb(e.__traceback__); print(a,"->",b,"EXC", type(e).__name__, [(f.name,f.lineno) for f in tb][-2:])
show(ElectronVolt*Second, Calorie*Hour, 1.602176634e-19/4.184/3600)
show(PoundForce*Second, Newton*Hour, 4.4482216152605/3600)
show(GForce*Second, Knot, 9.80665/(1852/3600))
show(ElectronVolt/Second, Calorie/Hour, 1.602176634e-19/4.184*3600)
show(PoundForce*Foot, Joule, 4.4482216152605*0.3048)
show(GForce*Kilogram, Newton, 9.80665)
show(Mile/Hour, Knot, 1609.344/1852)
show(Knot, Mile/Hour, 1852/1609.344)
show(Kilo*Watt*Hour, Joule, 3.6e6)
show(Kilo*Watt*Hour, Calorie, 3.6e6/4.184)
