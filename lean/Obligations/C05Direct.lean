/-
  Per-run obligations for the direct-fragment theorems (Proofs/PathSound, Proofs/GraphHist,
  Props/C05): the registries regenerated from /repo, with NO declarations, satisfy the invariant
  `GraphOK σ` for every size assignment σ; and the hypotheses of the history theorem are inhabited:
  starting from there, two fresh units are defined, `1 A = 3 m` and `1 B = 4 A` are declared,
  and the model's `convert` turns 5 B² into m² through the directly found path — the theorem then
  says the result is 5·(12/1)² exactly, which the kernel also computes.
-/
import Props.C05
import Obligations.C02

namespace Measured.Obligations.Direct
open Measured Generated St

/-- the shipped registries without any declared equivalence -/
def c0 : Conv Rat := { st := init, ratios := [], offsets := [] }

theorem c0_graphOK (σ : UId → Rat) (h1 : σ init.one = 1) : GraphOK σ c0 :=
  ⟨init_canon, init_ginv.1, init_ginv.2, h1, by intro a b m h; simp [c0, Table.row] at h,
   by intro a b m h; simp [c0, Table.row] at h⟩

def mIdx : UId := (lookup "meter" init.unitByName).getD 0
def A : UId := init.units.length
def B : UId := init.units.length + 1
/-- two fresh base units of the dimension of the metre (what `Dimension.unit(...)` appends; names play no role here) -/
def c1 : Conv Rat := { c0 with st := (init.appendBase (init.unit! mIdx).dim).appendBase (init.unit! mIdx).dim }

theorem c1_ginv : GInv c1.st := checkGInv_sound (by decide +kernel)
theorem c1_canon : Canon c1.st := checkCanon_sound (by decide +kernel)
def c2 : Conv Rat := (CM.exec (equate ⟨.int 1, A⟩ ⟨.int 3, mIdx⟩) c1).2
def c3 : Conv Rat := (CM.exec (equate ⟨.int 1, B⟩ ⟨.int 4, A⟩) c2).2
def powers : List Op := [.pow B 2, .pow mIdx 2]
def c4 : Conv Rat := { c3 with st := run c3.st powers }
def B2 : UId := (c3.st.powUnit B 2).2
def M2 : UId := ((c3.st.powUnit B 2).1.powUnit mIdx 2).2

def σd : UId → Rat := fun k => if k = A then 3 else if k = B then 12 else 1

theorem σd_ne (k : UId) : σd k ≠ 0 := by
  unfold σd; split_ifs <;> norm_num

theorem c1_graphOK : GraphOK σd c1 :=
  ⟨c1_canon, c1_ginv.1, c1_ginv.2, by decide +kernel, by intro a b m h; simp [c1, c0, Table.row] at h,
   by intro a b m h; simp [c1, c0, Table.row] at h⟩

def isOk {β} : Except Exc β → Bool
  | .ok _ => true
  | .error _ => false

theorem exec_unit_of_isOk {m : CM Rat Unit} {c : Conv Rat} (h : isOk (CM.exec m c).1 = true) :
    CM.exec m c = (.ok (), (CM.exec m c).2) := by
  cases hx : CM.exec m c with
  | mk r c' =>
    cases r with
    | ok u => rfl
    | error e => rw [hx] at h; cases h

theorem c1_graphWF : GraphWF c1 :=
  ⟨by intro a b m h; simp [c1, c0, Table.row] at h, by intro a b m h; simp [c1, c0, Table.row] at h⟩

theorem reach1 : Reach σd c1 := Reach.init c1_graphOK c1_graphWF rfl

theorem reach2 : Reach σd c2 :=
  Reach.equate (a := ⟨.int 1, A⟩) (b := ⟨.int 3, mIdx⟩) reach1 (by decide +kernel) (by decide +kernel)
    (by decide +kernel) (by decide +kernel) (exec_unit_of_isOk (by decide +kernel))

theorem reach3 : Reach σd c3 :=
  Reach.equate (a := ⟨.int 1, B⟩) (b := ⟨.int 4, A⟩) reach2 (by decide +kernel) (by decide +kernel)
    (by decide +kernel) (by decide +kernel) (exec_unit_of_isOk (by decide +kernel))

theorem reach4 : Reach σd c4 := Reach.units powers reach3

def q5 : Qty Rat := ⟨.int 5, B2⟩
def convRes := CM.exec (convert q5 M2) c4
def pathRes := CM.exec (findPath q5.unit M2) { c4 with st := ((c4.st.unprefixedUnit q5.unit).1.unprefixedUnit M2).1 }

def convCheck : Bool :=
  match convRes.1 with
  | .ok r => decide (r.mag.val = 720)
  | .error _ => false

def pathCheck : Bool :=
  match pathRes.1 with
  | .ok p => !p.isEmpty && decide (p.length = 2)
  | .error _ => false

theorem conv_evaluates : convCheck = true := by decide +kernel
theorem path_evaluates : pathCheck = true := by decide +kernel
theorem indices_valid : q5.unit < c4.st.units.length ∧ M2 < c4.st.units.length := by decide +kernel

/-- **The hypotheses of the direct-fragment theorems are inhabited on the regenerated registries**:
    in the state reached by appending two base units, declaring `1 A = 3 m`, `1 B = 4 A` and interning
    `B²`, `m²`, the model's `convert` answers `5 B² = 720 m²` through a directly found (two hops,
    squared) path — and `C05.direct_conversion_exact` applies to it. -/
theorem direct_fragment_inhabited :
    ∃ (r : Qty Rat) (c' : Conv Rat) (p : List (Hop Rat)) (c2 : Conv Rat),
      CM.exec (convert q5 M2) c4 = (.ok r, c') ∧
      CM.exec (findPath q5.unit M2) { c4 with st := ((c4.st.unprefixedUnit q5.unit).1.unprefixedUnit M2).1 } = (.ok p, c2) ∧
      p ≠ [] ∧ r.mag.val = 720 ∧
      r.mag.val * unitSz σd c4.st M2 = q5.mag.val * unitSz σd c4.st q5.unit := by
  have hc := conv_evaluates
  have hp := path_evaluates
  unfold convCheck at hc
  unfold pathCheck at hp
  cases h1 : convRes with
  | mk r1 c' =>
    cases r1 with
    | error e => rw [h1] at hc; cases hc
    | ok r =>
      rw [h1] at hc
      simp only [decide_eq_true_eq] at hc
      cases h2 : pathRes with
      | mk p1 c2 =>
        cases p1 with
        | error e => rw [h2] at hp; cases hp
        | ok p =>
          rw [h2] at hp
          simp only [Bool.and_eq_true, Bool.not_eq_true', decide_eq_true_eq] at hp
          have hne : p ≠ [] := by intro h; rw [h] at hp; simp at hp
          obtain ⟨_, d, c3', hfp, hd⟩ := C05.direct_conversion_exact σd_ne reach4 indices_valid.1 indices_valid.2 h1
          have h2' : CM.exec (findPath q5.unit M2)
              { c4 with st := ((c4.st.unprefixedUnit q5.unit).1.unprefixedUnit M2).1 } = (.ok p, c2) := h2
          rw [h2'] at hfp
          simp only [Prod.mk.injEq, Except.ok.injEq] at hfp
          obtain ⟨rfl, rfl⟩ := hfp
          exact ⟨r, c', p, c2, h1, h2', hne, hc, hd hne⟩

end Measured.Obligations.Direct
