"""C13 — str() output parses back to the same unit/quantity; spellings are equivalent.

Generator: products of 1-4 terms (registered prefix or none) x (registered unit) ** (exponent in
-4..4), prefixes of one base per unit inside the Lean model's fragment and mixed bases in the
last part of each chunk; int / float magnitudes of every repr shape.  For each unit u:
  str(u) -> Unit.parse,  str(q) -> Quantity.parse  (both sides), and six alternative spellings
of the same expression (^n vs superscripts, * vs the dot operator vs juxtaposition, a/b vs
negative exponents, random whitespace, registered single-token names).
Oracle (implementation only): Unit.parse(str(u)) is u, or a unit of the same dimension whose
exact size ratio to u is 1 (the deliberate kg-style alias); Quantity.parse(str(q)) == q with the
same magnitude type; all spellings parse to one object, the one the arithmetic built.
Failures are classified: collision of prefix symbol + unit symbol with another unit's symbol
(exact pair), prefix that cannot be pushed into the first factor (`1000 m²`), pushed prefix
without a symbol (`10⁴m`).
"""
import collections
import math
from fractions import Fraction as F

from measured import One, Prefix, Quantity, Unit
from measured.formatting import _unit_to_magnitude_and_terms
from measured.parsing import ParseError

from .c16 import SUPER, htok, ws
from .c17 import sym_bases
from .convcommon import ConvContext, ftok

LEVEL_TEXT = ("Lean: for EVERY integer n != 1, from_superscript(superscript(n)) = n, and int(str(n)) = n for the ^n spelling "
              "(superscript_round_trip, caret_round_trip: both exponent spellings carry the same integer; an omitted exponent is 1). "
              "In every state reachable from a canonical base state and for every unit whose prefix can be pushed into its first factor, "
              "the expression the parser rebuilds from the terms unit_str renders (resolve, raise, multiply left to right, divide by One) "
              "evaluates - after ANY further history - to the very same object (terms_denote, rendered_terms_are_the_unit, via the C02 "
              "canonical-form theory); `every factor is a base unit' is itself an invariant of every history (run_baseInv), so the statement "
              "holds for every unit of every state reachable from the imported library, whatever history created it "
              "(reachable_units_render_to_themselves, with init_base_factors by decide +kernel). The a/b vs negative exponent, * vs juxtaposition and ordering "
              "spellings are C02's group laws. Per run on regenerated data: every registered symbol is exactly one SYMBOL token "
              "(symbols_lex), a kernel-evaluated build/str/lex/LR-parse/transform round trip over a family (family_round_trip, a test), "
              "and the model's complete collision table (all ~5000 prefix x symbol pairs, compiled driver) equals the real "
              "resolve_symbol's. Tied to the code by differential execution and the implementation oracle over the property's space.")
LEVEL_NOTE = ("Which concrete symbol a rendered term spells depends on the whole symbol table: no unbounded theorem, but the exhaustive "
              "per-run table comparison and the exhaustive prefix x symbol sweep on the implementation. The character-level lexing of "
              "rendered text is checked by kernel evaluation on a family and by correspondence, not proved for all units. str() of "
              "float magnitudes (CPython repr) is not modelled; the harness passes Python's own text to both sides. Catalogued "
              "violations of the pinned code (known findings): unpushable prefix ('1000 m²'), symbol-less pushed prefix ('10⁴m'), the 7 "
              "symbol collisions, cross-base float prefixes.")
TECHNIQUE = "Lean 4 theorems (superscript round trip for every integer; the formatter's term list denotes the unit, by the C02 canonical-form theory) + decide +kernel collision table and family round trip on regenerated data + differential correspondence + implementation oracle"

THEOREMS = [
    "Measured.C13.superscript_round_trip", "Measured.C13.caret_round_trip", "Measured.C13.intOfChars_repr",
    "Measured.terms_denote", "Measured.C13.rendered_terms_are_the_unit", "Measured.run_baseInv",
    "Measured.C13.rendered_terms_are_the_unit_reachable", "Measured.Obligations.init_baseInv",
    "Measured.Obligations.reachable_units_render_to_themselves",
    "Measured.C02.div_eq_mul_inv", "Measured.C02.mul_comm", "Measured.C02.eval_canonical",
    "Measured.Obligations.symbols_lex", "Measured.Obligations.init_base_factors", "Measured.Obligations.init_terms_ok",
    "Measured.Obligations.shipped_units_render_to_themselves", "Measured.Obligations.family_round_trip",
    "Measured.queries_good", "Measured.C13.base_factors_after_every_query_history",
]
LEAN_TARGETS = ["Props.C13", "Obligations.C13", "Props.Planner", "Obligations.History"]
THOROUGH_TARGETS = ["ObligationsFull.C13Full"]
QUICK = {"chunks": 8, "ops": 1500}
THOROUGH = {"chunks": 16, "ops": 12000}
RULE = ("(unit expression, spelling) and (magnitude, unit); non-trivial = the unit has a prefix or more than one factor or an exponent "
        "other than 1; distinct by text")


def extra_checks(tier, seed, build_ok):
    """Table-level correspondence: the model's complete collision list (compiled driver, all
    same-base prefix x symbol pairs) against the real Unit.resolve_symbol in a fresh interpreter;
    every colliding pair that is not the deliberate, equal-valued kg alias is a C13 violation
    (matched against the catalogued pairs)."""
    import json
    import os
    import subprocess
    verif = os.path.dirname(os.path.dirname(os.path.dirname(os.path.abspath(__file__))))
    out = subprocess.run(["/venv/bin/python", os.path.join(verif, "translate", "gen_symbols.py"), "--report"],
                         stdout=subprocess.PIPE, stderr=subprocess.PIPE, text=True, timeout=600)
    if out.returncode != 0:
        return {"problems": [("translate", "gen_symbols --report failed: " + out.stderr[-400:])]}
    rep = json.loads(out.stdout.strip().splitlines()[-1])
    problems, failures = [], []
    drv = os.path.join(verif, "lean", ".lake", "build", "bin", "driver")
    if os.path.exists(drv):
        d = subprocess.run([drv], input="X\tcollisions\n", stdout=subprocess.PIPE, text=True, timeout=600)
        model = [x for x in d.stdout.strip().split("\t")[-1].split(",") if x] if d.stdout.startswith("ok\ts") else None
        if model is None or sorted(model) != sorted(rep["collisions"]):
            problems.append(("correspondence", "collision table: implementation %s vs model %s" % (sorted(rep["collisions"]), model)))
    for pair in rep["collisions"]:
        if pair == "k+g":
            continue            # `kg` is the kilogram: deliberate, equal in value (checked by the sweep's oracle)
        failures.append({"kind": "roundtrip-different", "class": "symbol-collision", "pair": pair,
                         "detail": "prefix symbol + unit symbol resolves to another unit (exhaustive table)"})
    return {"failures": failures, "problems": problems, "evaluations": rep["pairs"], "oracle_checks": rep["pairs"],
            "distinct_nontrivial": rep["pairs"], "exhaustive": True,
            "info": {"prefix_symbol_pairs": rep["pairs"], "collisions": rep["collisions"]}}


class Context(ConvContext):
    def __init__(self, sess, rng):
        super().__init__(sess, rng)
        self.by_symbol = dict(Unit._by_symbol)
        self.symbols = sorted(self.by_symbol)
        self.pfx_si = [p for p in self.si_prefixes if p.symbol]
        self.pfx_iec = [p for p in self.iec_prefixes if p.symbol]
        self.pending = {}        # text token -> expectation for the uparse/qparse that follows
        self.extra["outcomes"] = collections.Counter()
        self.extra["classes"] = collections.Counter()


def same_scale(ctx, x, y):
    if x is y:
        return True
    if x.dimension is not y.dimension:
        return False
    try:
        r = ctx.sizes.ratio(x, y)
    except Exception:  # noqa: BLE001
        r = None
    return r == 1


def pfx_value(p):
    if p.base == 0:
        return F(1)
    if isinstance(p.exponent, int):
        return F(p.base) ** p.exponent
    return F(float(p.base) ** p.exponent)


def quantity_equal(ctx, r, q):
    """Is the parsed quantity r the quantity q (value within 1e-9 relative: str() folds the unit's
    leading factor into a float magnitude) with a magnitude of the type written?"""
    if r.unit is q.unit:
        ratio = F(1)
    elif dict(r.unit.factors) == dict(q.unit.factors):
        ratio = pfx_value(r.unit.prefix) / pfx_value(q.unit.prefix)
    elif r.unit.dimension is q.unit.dimension and ctx.sizes.ratio(r.unit, q.unit) is not None:
        ratio = ctx.sizes.ratio(r.unit, q.unit)
    else:
        return False, None, None
    if any(isinstance(m, float) and not math.isfinite(m) for m in (r.magnitude, q.magnitude)):
        return r.magnitude == q.magnitude or (r.magnitude != r.magnitude and q.magnitude != q.magnitude), None, None
    a, b = F(r.magnitude) * ratio, F(q.magnitude)
    ok = (a == b) or (abs(a - b) <= F(1, 10 ** 9) * max(abs(a), abs(b)))
    if ok and type(r.magnitude) is not type(q.magnitude):
        folded = _unit_to_magnitude_and_terms(q.unit)[0] if not q.unit.symbol else 1
        ok = type(r.magnitude) is type(q.magnitude * folded)
    return ok, float(a), float(b)


def classify_unit(x):
    """Why str(x) may fail to parse back (catalogued classes), or None."""
    if x.symbol:
        return None, None
    if not isinstance(x.prefix.exponent, int):
        return "cross-base-float-prefix", None
    um, terms = _unit_to_magnitude_and_terms(x)
    if um != 1:
        return "unpushable-prefix", None
    p, sym, e = terms[0]
    if p.base != 0 and not p.symbol:
        return "symbolless-prefix", None
    if p.base != 0:
        text = p.symbol + sym
        # what resolve_symbol does with the concatenation
        if text in Unit._by_symbol:
            return "symbol-collision", "%s+%s" % (p.symbol, sym)
        for i in range(1, len(text)):
            if text[:i] in Prefix._by_symbol and text[i:] in Unit._by_symbol:
                if (text[:i], text[i:]) != (p.symbol, sym):
                    return "symbol-collision", "%s+%s" % (p.symbol, sym)
                break
    return None, None


def oracle(ctx, line, res):
    f = line.split("\t")
    if f[0] != "X" or f[1] not in ("uparse", "qparse"):
        return []
    exp = ctx.pending.pop(line, None)
    if exp is None:
        return []
    fails = []
    ctx.oracle_checks += 1
    text = ctx.sess.arg(f[2])
    if exp["what"] == "unit-roundtrip":
        x = exp["unit"]
        cls, pair = classify_unit(x)
        ctx.extra["classes"][str(cls)] += 1
        if res.startswith("ERR"):
            ctx.extra["outcomes"]["raise"] += 1
            fails.append({"kind": "roundtrip-unparseable", "class": cls, "pair": pair, "error": res[4:], "text": text, "unit": repr(x)[:200]})
        else:
            y = ctx.sess.U(res.split("\t")[1])
            if same_scale(ctx, x, y):
                ctx.extra["outcomes"]["same" if y is x else "alias"] += 1
            else:
                ctx.extra["outcomes"]["different"] += 1
                fails.append({"kind": "roundtrip-different", "class": cls, "pair": pair, "text": text, "parsed": repr(y)[:200], "unit": repr(x)[:200]})
    elif exp["what"] == "quantity-roundtrip":
        q = exp["quantity"]
        cls, pair = classify_unit(q.unit)
        if cls == "unpushable-prefix":
            cls = None          # quantity_str folds the factor into the magnitude
        if res.startswith("ERR"):
            fails.append({"kind": "quantity-roundtrip-unparseable", "class": cls, "pair": pair, "error": res[4:], "text": text})
        else:
            r = ctx.sess.qs[-1]
            ok, a, b = quantity_equal(ctx, r, q)
            if not ok:
                if cls == "cross-base-float-prefix":
                    # that class is about prefixes that differ in the last bits; a VALUE that is off by more than
                    # the 1e-9 of quantity_equal is something else
                    cls = None
                fails.append({"kind": "quantity-roundtrip-different", "class": cls, "pair": pair, "text": text,
                              "parsed": "%r %s" % (r.magnitude, r.unit), "quantity": "%r %s" % (q.magnitude, q.unit)})
            else:
                # "an equal quantity" means == of the library.  Calling == here would convert (and intern units, which
                # shifts the creation ordinals the correspondence compares), so the two cases are decided by hand:
                # same unit object -> the magnitudes must be equal exactly; folded prefix -> == multiplies the
                # original magnitude by the prefix value, so the printed magnitude must be exactly that product
                # (on the pinned tree it always is; a rendering that is off by one ulp shows here)
                same = None
                try:
                    if r.unit is q.unit:
                        same = (r.magnitude == q.magnitude) or (a != a)
                    elif not q.unit.symbol and cls is None:
                        um = _unit_to_magnitude_and_terms(q.unit)[0]
                        if um != 1 and isinstance(q.magnitude, (int, float)):
                            same = (r.magnitude == (q * um).magnitude)
                except Exception:  # noqa: BLE001
                    same = None
                if same is False:
                    fails.append({"kind": "quantity-roundtrip-not-equal", "class": cls, "pair": pair, "text": text,
                                  "parsed": "%r %s" % (r.magnitude, r.unit), "quantity": "%r %s" % (q.magnitude, q.unit)})
    elif exp["what"] == "spelling":
        want = exp["unit"]
        if res.startswith("ERR"):
            fails.append({"kind": "spelling-rejected", "class": exp["class"], "pair": exp["pair"], "error": res[4:], "text": text,
                          "canonical": exp["canonical"]})
        else:
            y = ctx.sess.U(res.split("\t")[1])
            group = exp["group"]
            if "first" not in group:
                # the first spelling: the unit the arithmetic built (or its deliberate equal alias, kg)
                group["first"] = y
                if not same_scale(ctx, y, want):
                    fails.append({"kind": "spelling-differs", "class": exp["class"], "pair": exp["pair"], "text": text,
                                  "canonical": exp["canonical"], "parsed": str(y), "expected": str(want)})
            elif y is not group["first"]:
                # every other spelling: the very same object as the first
                fails.append({"kind": "spellings-disagree", "class": exp["class"], "pair": exp["pair"], "text": text,
                              "canonical": exp["canonical"], "parsed": str(y), "expected": str(group["first"])})
    return fails


def nontrivial(ctx, line, res):
    f = line.split("\t")
    if f[0] == "X" and f[1] in ("uparse", "qparse"):
        return f[1] + f[2]
    return None


def pick_terms(ctx, cross):
    rng = ctx.rng
    n = rng.choice([1, 1, 1, 2, 2, 3, 4])
    base = None
    terms = []
    for _ in range(n):
        for _try in range(20):
            sym = rng.choice(ctx.symbols)
            u = ctx.by_symbol[sym]
            p = None
            if rng.random() < 0.6:
                p = rng.choice(ctx.pfx_si if rng.random() < 0.75 else ctx.pfx_iec)
            bases = ({p.base} if p else set()) | ({u.prefix.base} - {0})
            if not cross:
                if len(bases | ({base} if base else set())) > 1:
                    continue
                if bases:
                    base = next(iter(bases))
            break
        else:
            sym, u, p = "m", ctx.by_symbol["m"], None
        e = rng.choice([1, 1, 1, 2, 2, 3, -1, -1, -2, -3, 4, -4])
        terms.append((p, sym, u, e))
    return terms


def spell_exp(rng, e, style):
    if e == 1 and rng.random() < 0.8:
        return ""
    if style == "caret":
        return "^" + (rng.choice(["", "+"]) if e > 0 else "") + str(e)
    return ("⁻" if e < 0 else "") + "".join(SUPER[int(d)] for d in str(abs(e)))


def spellings(ctx, terms):
    """Alternative texts for prod (p*u)**e, grammar-admissible, all denoting the same unit."""
    rng = ctx.rng
    out = []
    for _ in range(6):
        sep = rng.choice(["*", "⋅", " "])
        style = rng.choice(["caret", "super"])
        ratio = rng.random() < 0.5 and any(e < 0 for _p, _s, _u, e in terms) and any(e > 0 for _p, _s, _u, e in terms)

        def term(p, sym, u, e):
            name = sym
            if p is None and rng.random() < 0.2:
                names = [n for n in u.names if n in Unit._by_name and all(c.isalpha() and ord(c) < 128 or c in "-." for c in n)]
                if names and sym_bases(names[0]) == ({u.prefix.base} - {0}) and names[0] not in Unit._by_symbol \
                        and not any(names[0][:i] in Prefix._by_symbol and names[0][i:] in Unit._by_symbol for i in range(1, len(names[0]))):
                    name = names[0]
            return (p.symbol if p else "") + name + spell_exp(rng, e, style)

        def join(ts):
            parts = []
            for i, t in enumerate(ts):
                if i:
                    if sep == " ":
                        parts.append(ws(rng, need=not (parts[-1][-1:] in SUPER)))
                    else:
                        parts.extend([ws(rng), sep, ws(rng)])
                parts.append(t)
            return "".join(parts)

        if ratio:
            num = [term(p, s, u, e) for p, s, u, e in terms if e > 0]
            den = [term(p, s, u, -e) for p, s, u, e in terms if e < 0]
            text = join(num) + ws(rng) + "/" + ws(rng) + join(den)
        else:
            text = join([term(p, s, u, e) for p, s, u, e in terms])
        out.append(ws(rng) + text + ws(rng))
    return out


def magnitude_token(rng):
    r = rng.random()
    if r < 0.4:
        return "i:%d" % rng.choice([1, 2, 3, -4, 7, 10, 0, 250, 10 ** 9, -(10 ** 15) + 1, rng.randint(-10 ** 6, 10 ** 6)])
    return ftok(rng.choice([1.0, 2.5, -0.75, 1e-3, 12345.678, 0.1, 1e22, 1e-7, -0.0, 1e16,
                            123456789012345680.0, rng.uniform(-100, 100), rng.uniform(-1, 1) * 10 ** rng.randint(-30, 30)]))


def generate(ctx, n_ops):
    rng = ctx.rng
    emitted = 0

    def emit(line):
        nonlocal emitted
        res = yield line
        emitted += 1
        return res

    # chunk 0 of every run: the exhaustive sweep over registered prefix x registered symbol
    # (exponent 1): every collision of the shipped symbol table is met on every run
    if getattr(ctx, "seed", 1) % 1000 == 0 and n_ops >= 1000:
        for p in ctx.pfx_si + ctx.pfx_iec:
            for sym in ctx.symbols:
                u = ctx.by_symbol[sym]
                if u.prefix.base not in (0, p.base):
                    continue
                res = yield "U\tpmul\tp%d:%d\tu%d" % (p.base, p.exponent, ctx.sess.uid(u))
                if not res.startswith("ok\tu"):
                    continue
                x = int(res.split("\t")[1][1:])
                unit = ctx.unit(x)
                line = "X\tuparse\t%s" % htok(str(unit))
                ctx.pending[line] = {"what": "unit-roundtrip", "unit": unit}
                yield line
        ctx.extra["sweep"] = "all registered prefix x symbol pairs"
    scenario = 0
    while emitted < n_ops:
        # "every set of imported unit modules": a unit (module) registered AFTER a text was first
        # parsed.  A fresh base unit with symbol S; `kS` parses as kilo-S; then another unit takes the
        # exact symbol `kS`; str() of that unit is `kS` and must read back as that unit.
        if emitted >= scenario * 400 and emitted < n_ops * 0.85:
            scenario += 1
            tag = "".join(rng.choice("qwxyzjv") for _ in range(3)) + "%d" % 1
            tag = tag.replace("1", rng.choice("abc"))
            if tag not in Unit._by_symbol and not any(tag[:i] in Prefix._by_symbol and tag[i:] in Unit._by_symbol for i in range(1, 4)):
                p = rng.choice(ctx.pfx_si)
                dim = "d" + ",".join("1" if i == 1 else "0" for i in range(10))
                res = yield from emit("U\tdefine\t%s\tname-%s\t%s" % (dim, tag, tag))
                if res.startswith("ok\tu"):
                    base_u = int(res.split("\t")[1][1:])
                    late = p.symbol + tag
                    res = yield from emit("X\tuparse\t%s" % htok(late))              # prefix split, today
                    res2 = yield from emit("U\tpmul\tp%d:%d\tu%d" % (p.base, p.exponent, base_u))
                    if late not in Unit._by_symbol:
                        res = yield from emit("U\tdefine\t%s\tname-%s\t%s" % (dim, late, late))
                        if res.startswith("ok\tu"):
                            newi = int(res.split("\t")[1][1:])
                            newu = ctx.unit(newi)
                            res = yield from emit("U\tpow\tu%d\t2" % newi)
                            sq = ctx.unit(int(res.split("\t")[1][1:])) if res.startswith("ok\tu") else None
                            for text in (late, late + "²", "5 " + late):
                                if text.startswith("5"):
                                    line = "X\tqparse\t%s" % htok(text)
                                    ctx.pending[line] = {"what": "quantity-roundtrip", "quantity": Quantity(5, newu)}
                                    res = yield from emit(line)
                                    if res.startswith("ok\tq"):
                                        ctx.nq += 1
                                else:
                                    line = "X\tuparse\t%s" % htok(text)
                                    if text != late and sq is None:
                                        continue
                                    ctx.pending[line] = {"what": "unit-roundtrip", "unit": newu if text == late else sq}
                                    yield from emit(line)
                            ctx.extra["late_registrations"] = ctx.extra.get("late_registrations", 0) + 1
        cross = emitted > n_ops * 0.85
        if cross and not ctx.extra.get("marked"):
            ctx.extra["marked"] = emitted
            yield "STATE"
        terms = pick_terms(ctx, cross)
        # build prod (p*u)**e with the library's arithmetic
        cur = None
        okay = True
        for p, sym, u, e in terms:
            x = ctx.sess.uid(u)
            if p is not None:
                res = yield from emit("U\tpmul\tp%d:%d\tu%d" % (p.base, p.exponent, x))
                if not res.startswith("ok\tu"):
                    okay = False
                    break
                x = int(res.split("\t")[1][1:])
            if e != 1:
                res = yield from emit("U\tpow\tu%d\t%d" % (x, e))
                if not res.startswith("ok\tu"):
                    okay = False
                    break
                x = int(res.split("\t")[1][1:])
            if cur is None:
                cur = x
            else:
                res = yield from emit("U\tmul\tu%d\tu%d" % (cur, x))
                if not res.startswith("ok\tu"):
                    okay = False
                    break
                cur = int(res.split("\t")[1][1:])
        if not okay:
            continue
        unit = ctx.unit(cur)
        # (1) str(u) -> parse
        res = yield from emit("X\tustr\tu%d" % cur)
        text = str(unit)
        line = "X\tuparse\t%s" % htok(text)
        ctx.pending[line] = {"what": "unit-roundtrip", "unit": unit}
        yield from emit(line)
        # (2) str(q) -> parse
        mt = magnitude_token(rng)
        res = yield from emit("X\tqnew\t%s\tu%d" % (mt, cur))
        if res.startswith("ok\tq"):
            ctx.nq += 1
            q = ctx.sess.qs[-1]
            yield from emit("X\tqstr\tq%d" % (ctx.nq - 1))
            try:
                qtext = str(q)
            except Exception:  # noqa: BLE001
                qtext = None
            if qtext is not None:
                line = "X\tqparse\t%s" % htok(qtext)
                ctx.pending[line] = {"what": "quantity-roundtrip", "quantity": q}
                res = yield from emit(line)
                if res.startswith("ok\tq"):
                    ctx.nq += 1
        # (3) spellings of the expression: all the same object as the arithmetic result, unless the
        #     concatenated prefix+symbol of some term is hijacked (catalogued collisions)
        pair, cls = None, None
        for p, sym, u, e in terms:
            if p is not None:
                t = p.symbol + sym
                hij = t in Unit._by_symbol
                if not hij:
                    for i in range(1, len(t)):
                        if t[:i] in Prefix._by_symbol and t[i:] in Unit._by_symbol:
                            hij = (t[:i], t[i:]) != (p.symbol, sym)
                            break
                if hij:
                    pair, cls = "%s+%s" % (p.symbol, sym), "symbol-collision"
                    break
        bases = set()
        for p, sym, u, e in terms:
            bases |= ({p.base} if p else set()) | ({u.prefix.base} - {0})
        if len(bases) > 1 and cls is None:
            cls = "cross-base-float-prefix"
        texts = spellings(ctx, terms)
        group = {}
        for t in texts:
            line = "X\tuparse\t%s" % htok(t)
            ctx.pending[line] = {"what": "spelling", "unit": unit, "canonical": texts[0], "class": cls, "pair": pair, "group": group}
            yield from emit(line)
    yield "STATE"
