"""Shared generator helpers: pick operands from the live library state."""
from measured import Dimension, Prefix, Unit, conversions


class BaseContext:
    def __init__(self, sess, rng):
        self.sess = sess
        self.rng = rng
        self.oracle_checks = 0
        self.extra = {}
        self.checked_upto = 0
        sess.sync()
        self.initial_units = len(sess.units)
        self.base_units = sorted((sess.uid(u) for u in Unit._base))
        # base units whose own dimension has exponents of both signs or |e| > 1
        self.derived_base = [
            i for i in self.base_units
            if sum(abs(e) for e in sess.units[i].dimension.exponents) > 1
        ]
        self.mixed_base = [
            i for i in self.base_units
            if any(e < 0 for e in sess.units[i].dimension.exponents)
            and any(e > 0 for e in sess.units[i].dimension.exponents)
        ]
        self.prefixes = [p for p in Prefix._by_name.values() if isinstance(p.exponent, int)]
        self.si_prefixes = [p for p in self.prefixes if p.base == 10]
        self.iec_prefixes = [p for p in self.prefixes if p.base == 2]

    # ---- units -------------------------------------------------------------
    def n_units(self):
        self.sess.sync()
        return len(self.sess.units)

    def unit(self, i):
        self.sess.sync()
        return self.sess.units[i]

    def pick_unit(self):
        r = self.rng.random()
        n = self.n_units()
        if r < 0.25 and self.mixed_base:
            return self.rng.choice(self.mixed_base)
        if r < 0.40 and self.derived_base:
            return self.rng.choice(self.derived_base)
        if r < 0.55:
            return self.rng.choice(self.base_units)
        if r < 0.75 and n > self.initial_units:
            return self.rng.randrange(self.initial_units, n)
        if r < 0.85 and n > 12:
            return self.rng.randrange(n - 12, n)
        return self.rng.randrange(n)

    def compatible(self, a, b):
        """Model limit: products of prefixes with different non-zero bases are float-valued."""
        pa, pb = self.unit(a).prefix, self.unit(b).prefix
        return pa.base == 0 or pb.base == 0 or pa.base == pb.base

    def pick_pair(self):
        for _ in range(20):
            a, b = self.pick_unit(), self.pick_unit()
            if self.compatible(a, b):
                return a, b
        return self.base_units[0], self.base_units[1]

    def pick_prefix_for(self, i):
        base = self.unit(i).prefix.base
        pool = self.prefixes if base == 0 else [p for p in self.prefixes if p.base == base]
        return self.rng.choice(pool)

    def pfx_tok(self, p):
        return "p%d:%d" % (p.base, p.exponent)

    def same_dimension_units(self, i, limit=40):
        d = self.unit(i).dimension
        out = []
        for j in range(self.n_units()):
            if self.sess.units[j].dimension is d:
                out.append(j)
        self.rng.shuffle(out)
        return out[:limit]

    def small_int(self, lo=-4, hi=4, nonzero=False):
        while True:
            n = self.rng.randint(lo, hi)
            if n != 0 or not nonzero:
                return n
