/-
  Proofs/Declared.lean — a declared equivalence is always usable (the C08 clause "a conversion
  that failed before an equivalence was declared succeeds once it is declared"), for the model of
  `_find_path_recursive` after the `fix:` commit that looks the pair up before reducing it to roots.

  * `findPath_declared`: if `_ratios[a][b]` exists (a ≠ b) the search returns exactly that hop,
    in every state, whatever else the graph contains — also for pairs of powers (`X² = 4 Y²`),
    which the reduction to roots used to hide;
  * `equate_declares`: after `equate(a, b)` both directions are in the table, with the ratios
    `b/a` and `a/b` of the unprefixed magnitudes;
  * `convert_declared`: converting a quantity of the one unit to the other multiplies by the ratio.
-/
import Proofs.GraphHist

namespace Measured
open St

variable {σ : UId → Rat}

/-! ### reading back what `t[a][b] = v` wrote -/

namespace Table
variable {β : Type}

theorem find_setRow (r : List (UId × β)) (b : UId) (v : β) :
    (if r.any (fun c => c.1 == b) then r.map (fun c => if c.1 == b then (b, v) else c) else r ++ [(b, v)]).find?
      (fun c => c.1 == b) = some (b, v) := by
  split
  · next h =>
    induction r with
    | nil => simp at h
    | cons c rest ih =>
      simp only [List.map_cons, List.find?_cons]
      by_cases hc : (c.1 == b) = true
      · simp [hc]
      · simp only [hc, Bool.false_eq_true, ↓reduceIte]
        simp only [List.any_cons, hc, Bool.false_or] at h
        exact ih h
  · next h =>
    have hnone : r.find? (fun c => c.1 == b) = none := by
      apply List.find?_eq_none.2
      intro c hc
      simp only [List.any_eq_true, not_exists, not_and] at h
      exact h c hc
    rw [List.find?_append, hnone]
    simp

/-- the row written by `t[a][b] = v` -/
theorem row_set_self (t : Table β) (a b : UId) (v : β) :
    (t.set a b v).row a =
      (if (t.row a).any (fun c => c.1 == b) then (t.row a).map (fun c => if c.1 == b then (b, v) else c)
       else t.row a ++ [(b, v)]) := by
  unfold Table.row Table.set
  simp only
  by_cases h : (t.any (fun r => r.1 == a)) = true
  · simp only [h, ↓reduceIte]
    rw [find_map_keys t _ (by intro r; by_cases h : (r.1 == a) = true <;> simp_all) a]
    simp only [List.any_eq_true] at h
    obtain ⟨r, hr, hra⟩ := h
    cases hf : t.find? (fun r => r.1 == a) with
    | none =>
      have := List.find?_eq_none.1 hf r hr
      simp [hra] at this
    | some r' =>
      have hr' : (r'.1 == a) = true := by
        have := List.find?_some hf; simpa using this
      simp only [Option.map_some, hr', ↓reduceIte]
  · simp only [h, Bool.false_eq_true, ↓reduceIte]
    have hnone : t.find? (fun r => r.1 == a) = none := by
      apply List.find?_eq_none.2
      intro r hr
      simp only [List.any_eq_true, not_exists, not_and] at h
      exact h r hr
    rw [List.find?_append, hnone]
    simp

/-- writing another row leaves a row alone -/
theorem row_set_other (t : Table β) {a a' : UId} (b' : UId) (v : β) (h : a ≠ a') :
    (t.set a' b' v).row a = t.row a := by
  unfold Table.row Table.set
  simp only
  by_cases hany : (t.any (fun r => r.1 == a')) = true
  · simp only [hany, ↓reduceIte]
    rw [find_map_keys t _ (by intro r; by_cases h : (r.1 == a') = true <;> simp_all) a]
    cases hf : t.find? (fun r => r.1 == a) with
    | none => rfl
    | some r =>
      have hr : r.1 = a := by have := List.find?_some hf; simpa using this
      have hne : (r.1 == a') = false := by rw [hr]; simpa using h
      simp only [Option.map_some, hne, Bool.false_eq_true, ↓reduceIte]
  · simp only [hany, Bool.false_eq_true, ↓reduceIte]
    rw [List.find?_append]
    cases hf : t.find? (fun r => r.1 == a) with
    | some r => simp
    | none =>
      have : (a' == a) = false := by simpa using (Ne.symm h)
      simp [this]

/-- reading back the entry just written -/
theorem get?_set_self (t : Table β) (a b : UId) (v : β) : (t.set a b v).get? a b = some v := by
  unfold Table.get?
  rw [row_set_self, find_setRow]

theorem get?_set_other_row (t : Table β) {a a' : UId} (b b' : UId) (v : β) (h : a ≠ a') :
    (t.set a' b' v).get? a b = t.get? a b := by
  unfold Table.get?
  rw [row_set_other t b' v h]

end Table

/-! ### a declared pair is found, and converts -/

/-- If `_ratios[a][b]` exists, the path search returns exactly that hop — in every state, whatever
    else the graph contains, also for pairs of powers. -/
theorem findPath_declared {c : Conv Rat} {a b : UId} {m : Mag Rat} (h : c.ratios.get? a b = some m) (hab : a ≠ b) :
    CM.exec (findPath a b) c =
      (.ok [{ scale := m, offset := (c.offsets.get? a b).getD (.int 0), unit := b }], c) := by
  unfold findPath
  rw [exec_bind, exec_getThe']
  simp only
  rw [exec_bind]
  have hrec : CM.exec (findPathRec (c.ratios.length + 3) a b []) c =
      (.ok ([{ scale := m, offset := (c.offsets.get? a b).getD (.int 0), unit := b }], [a]), c) := by
    have hfuel : c.ratios.length + 3 = (c.ratios.length + 2) + 1 := rfl
    rw [hfuel]
    unfold findPathRec
    have hne : (a == b) = false := by simpa using hab
    simp only [hne, Bool.false_eq_true, ↓reduceIte, List.contains_nil, List.nil_append]
    rw [exec_bind, exec_getThe']
    simp only
    have hdir : (directEdge c a b).isSome = true := by unfold directEdge; rw [h]; rfl
    simp only [hdir, ↓reduceIte, exec_pure]
    unfold directEdge
    rw [h]
    rfl
  rw [hrec]
  simp only [exec_pure]

/-- After `equate(a, b)` both directions are in the table. -/
theorem equate_declares {c c' : Conv Rat} {a b : Qty Rat} (hg : GraphOK σ c)
    (ha : a.unit < c.st.units.length) (hb : b.unit < c.st.units.length)
    (hcons : a.mag.val * unitSz σ c.st a.unit = b.mag.val * unitSz σ c.st b.unit)
    (hx : CM.exec (equate a b) c = (.ok (), c')) :
    ∃ (A B : UId) (r1 r2 : Mag Rat),
      A = (c.st.unprefixedUnit a.unit).2 ∧ B = ((c.st.unprefixedUnit a.unit).1.unprefixedUnit b.unit).2 ∧
      A < c'.st.units.length ∧ B < c'.st.units.length ∧
      (A ≠ B → c'.ratios.get? A B = some r1) ∧ c'.ratios.get? B A = some r2 ∧
      r1.val = (Pfx.val (c.st.unit! b.unit).pfx * b.mag.val) / (Pfx.val (c.st.unit! a.unit).pfx * a.mag.val) ∧
      r2.val = (Pfx.val (c.st.unit! a.unit).pfx * a.mag.val) / (Pfx.val (c.st.unit! b.unit).pfx * b.mag.val) ∧
      GraphOK σ c' := by
  obtain ⟨g, _, _, _, A, B, r1, r2, hA, hB, hAl, hBl, hrat, v1, v2⟩ := equate_graphOK hg ha hb hcons hx
  refine ⟨A, B, r1, r2, hA, hB, hAl, hBl, ?_, ?_, v1, v2, g⟩
  · intro hne
    rw [hrat, Table.get?_set_other_row _ _ _ _ hne, Table.get?_set_self]
  · rw [hrat, Table.get?_set_self]

/-- **C08: once declared, it converts.**  If `_ratios[a][b] = m` in a graph that agrees with a size
    assignment and has no offsets, a quantity of `a` converts to `b` by exactly that ratio (whenever
    `convert` returns at all, it is through this very hop; and the search itself cannot fail). -/
theorem convert_declared (hσ : ∀ k, σ k ≠ 0) {c c' : Conv Rat} {q r : Qty Rat} {t : UId} {m : Mag Rat}
    (hg : GraphOK σ c) (hq : q.unit < c.st.units.length) (ht : t < c.st.units.length) (hoff : c.offsets = [])
    (hdecl : c.ratios.get? q.unit t = some m) (hne : q.unit ≠ t)
    (h : CM.exec (convert q t) c = (.ok r, c')) :
    r.unit = t ∧ r.mag.val = q.mag.val * m.val := by
  obtain ⟨hu, d, c2, hfp, hd⟩ := convert_direct_exact hσ hg hq ht hoff h
  have hdecl' : ({ c with st := ((c.st.unprefixedUnit q.unit).1.unprefixedUnit t).1 } : Conv Rat).ratios.get? q.unit t = some m := hdecl
  rw [findPath_declared hdecl' hne] at hfp
  simp only [Prod.mk.injEq, Except.ok.injEq] at hfp
  obtain ⟨rfl, _⟩ := hfp
  obtain ⟨hval, _, _⟩ := hd (by simp)
  refine ⟨hu, ?_⟩
  obtain ⟨_, _, hm⟩ := hg.edges q.unit t m (Table.get?_some_mem hdecl)
  have hst := unitSz_ne_zero hσ hg.canon ht
  have : r.mag.val * unitSz σ c.st t = (q.mag.val * m.val) * unitSz σ c.st t := by
    rw [hval, mul_assoc, hm]
  exact mul_right_cancel₀ hst this

end Measured
