/-
  Model/World.lean — the whole modelled process state and the dispatcher for the
  "extended" operations (quantities, conversions, measurements, levels, text), with
  Python's binary-operator dispatch made explicit: try the left operand's dunder, then
  the right operand's reflected dunder, then `TypeError` (arithmetic, ordering) or the
  identity fallback (`==`, `!=`).
-/
import Model.Step
import Model.Graph
import Model.Convert
import Model.Quantity
import Model.Measure
import Model.Text
import Model.Names
import Model.Serial

namespace Measured

inductive Arg (α : Type) where
  | unit (i : UId)
  | qty (q : Qty α)
  | meas (m : Meas α)
  | level (m : Mag α) (lu : Nat)
  | pfx (p : Pfx)
  | num (m : Mag α)
  | int (n : Int)
  | str (s : String)

inductive Ret (α : Type) where
  | qty (q : Qty α)
  | bool (b : Bool)
  | mag (m : Mag α)
  | unit (i : UId)
  | pair (i j : UId)
  | pfx (p : Pfx)
  | str (s : String)
  | meas (m : Meas α)
  | level (m : Mag α) (lu : Nat)
  | lunit (i : Nat)
  | plan (p : Plan α)
  | none
  | err (e : Exc)

structure World (α : Type) where
  cv : Conv α
  g : Grammar
  rootPower : List Dim := []
  qs : Array (Qty α) := #[]
  ms : Array (Meas α) := #[]
  ls : Array (Mag α × Nat) := #[]
  lus : Array (LogUnit α) := #[]
  ptab : NTab Pfx := { objs := [] }                 -- Prefix._known / _by_name / _by_symbol
  dtab : NTab Dim := { objs := [], regSyms := false } -- Dimension._known / _by_name

namespace World

section
variable {α : Type}

abbrev st (w : World α) : St := w.cv.st
abbrev ratios (w : World α) : Table (Mag α) := w.cv.ratios

def init [FloatLike α] (s : St) (ratios offsets : Table Raw) (rootPower : List Dim) (g : Grammar) (asserts : Bool) : World α :=
  { cv := { st := s,
            ratios := ratios.map (fun r => (r.1, r.2.map (fun c => (c.1, c.2.toMag)))),
            offsets := offsets.map (fun r => (r.1, r.2.map (fun c => (c.1, c.2.toMag)))),
            asserts := asserts },
    rootPower := rootPower, g := g }

/-- Values returned to the session are stored so later lines can refer to them. -/
def store (w : World α) : Ret α → World α
  | .qty q => { w with qs := w.qs.push q }
  | .meas m => { w with ms := w.ms.push m }
  | .level m lu => { w with ls := w.ls.push (m, lu) }
  | _ => w

end

section
variable {α : Type} [Add α] [Sub α] [Mul α] [Div α] [Neg α] [OfNat α 0] [OfNat α 1] [FloatLike α]

/-- Run a `CM` action against the world's conversion state. -/
def runCM {β} (w : World α) (m : CM α β) (k : β → Ret α) : World α × Ret α :=
  let (r, cv') := (m.run).run w.cv
  match r with
  | .ok b => ({ w with cv := cv' }, k b)
  | .error e => ({ w with cv := cv' }, .err e)

def levelQty (w : World α) (m : Mag α) (lu : Nat) : CM α (Qty α) :=
  match w.lus[lu]? with
  | some l => l.quantify w.rootPower m
  | none => throw .unmodelled

/-- Arithmetic `x ⊙ y` for ⊙ ∈ {add, sub, mul, div}. -/
def arith (w : World α) (op : String) (x y : Arg α) : CM α (Ret α) := do
  let one := (← getSt).one
  let typeError : CM α (Ret α) := throw .typeError
  match op, x, y with
  -- multiplication
  | "mul", .num m, .unit u | "mul", .unit u, .num m => pure (.qty { mag := m, unit := u })
  | "mul", .unit a, .unit b => do let u ← liftStE (fun s => s.mulUnit a b); pure (.unit u)
  | "mul", .pfx p, .unit u | "mul", .unit u, .pfx p => do
      let r ← liftStE (fun s => s.pmulUnit p u); pure (.unit r)
  | "mul", .pfx p, .pfx q => do let r ← liftE (Pfx.mul p q); pure (.pfx r)
  | "mul", .pfx p, .num m | "mul", .num m, .pfx p =>
      pure (.qty { mag := Mag.mul m (Pfx.value p), unit := one })
  | "mul", .num m, .qty q | "mul", .qty q, .num m => pure (.qty (q.mulNum m))
  | "mul", .qty q, .unit u | "mul", .unit u, .qty q => do let r ← q.mulUnit u; pure (.qty r)
  | "mul", .qty a, .qty b => do let r ← a.mul b; pure (.qty r)
  | "mul", .meas a, .meas b => do let r ← a.mul b; pure (.meas r)
  | "mul", .meas a, .qty b | "mul", .qty b, .meas a => do let r ← a.mul (.ofQty b); pure (.meas r)
  | "mul", .level m lu, .num n => pure (.level (Mag.add m n) lu)
  -- division
  | "div", .unit a, .unit b => do let u ← liftStE (fun s => s.divUnit a b); pure (.unit u)
  | "div", .pfx p, .pfx q => do let r ← liftE (Pfx.div p q); pure (.pfx r)
  | "div", .qty q, .unit u => do let r ← q.divUnit u; pure (.qty r)
  | "div", .qty a, .qty b => do let r ← a.div b; pure (.qty r)
  | "div", .qty q, .num m => do let r ← q.divNum m; pure (.qty r)
  | "div", .num m, .qty q => do let r ← q.rdivNum m; pure (.qty r)
  | "div", .meas a, .meas b => do let r ← a.div b; pure (.meas r)
  | "div", .meas a, .qty b => do let r ← a.div (.ofQty b); pure (.meas r)
  | "div", .qty a, .meas b => do let r ← (Meas.ofQty a).div b; pure (.meas r)
  | "div", .level m lu, .num n => pure (.level (Mag.sub m n) lu)
  -- addition / subtraction
  | "add", .qty a, .qty b => do let r ← a.add b; pure (.qty r)
  | "sub", .qty a, .qty b => do let r ← a.sub b; pure (.qty r)
  | "add", .meas a, .meas b => do let r ← a.add b; pure (.meas r)
  | "sub", .meas a, .meas b => do let r ← a.sub b; pure (.meas r)
  | "add", .meas a, .qty b | "add", .qty b, .meas a => do let r ← a.add (.ofQty b); pure (.meas r)
  | "sub", .meas a, .qty b => do let r ← a.sub (.ofQty b); pure (.meas r)
  | "sub", .qty a, .meas b => do let r ← (Meas.ofQty a).sub b; pure (.meas r)
  | "add", .unit a, .unit b | "sub", .unit a, .unit b => if a == b then pure (.unit a) else typeError
  | "add", .level .., .level .. | "sub", .level .., .level .. => throw .unmodelled
  | _, _, _ => let _ := w; typeError

/-- Coerce a comparison operand the way `Measurement`'s dunders do. -/
def toMeas (w : World α) : Arg α → CM α (Option (Meas α))
  | .meas m => pure (some m)
  | .qty q => pure (some (.ofQty q))
  | .level m lu => do let q ← levelQty w m lu; pure (some (.ofQty q))
  | _ => pure none

/-- Rich comparisons. -/
def compare (w : World α) (op : String) (x y : Arg α) : CM α (Ret α) := do
  let fallback : CM α (Ret α) :=
    match op with
    | "eq" => pure (.bool false)
    | "ne" => pure (.bool true)
    | _ => throw .typeError
  let qq (a b : Qty α) : CM α (Ret α) := do
    match op with
    | "eq" => let r ← a.eq b; pure (.bool r)
    | "ne" => let r ← a.ne b; pure (.bool r)
    | "lt" => let r ← a.lt b; pure (.bool r)
    | "le" => let r ← a.le b; pure (.bool r)
    | "gt" => let r ← a.gt b; pure (.bool r)
    | "ge" => let r ← a.ge b; pure (.bool r)
    | _ => throw .unmodelled
  let mm (a b : Meas α) (flip : Bool) : CM α (Ret α) := do
    -- flip: the Measurement is the right operand, so the reflected dunder runs
    match op, flip with
    | "eq", _ => let r ← a.eq b; pure (.bool r)
    | "ne", _ => let r ← a.eq b; pure (.bool (!r))
    | "lt", false | "gt", true => let r ← a.lt b; pure (.bool r)
    | "le", false | "ge", true => let r ← a.le b; pure (.bool r)
    | "gt", false | "lt", true => let r ← a.gt b; pure (.bool r)
    | "ge", false | "le", true => let r ← a.ge b; pure (.bool r)
    | _, _ => throw .unmodelled
  match x, y with
  | .qty a, .qty b => qq a b
  | .qty a, .level m lu => do let b ← levelQty w m lu; qq a b
  | .level m lu, .qty b => do
      -- Level defines only __eq__; orderings fall to the Quantity's reflected dunder
      let a ← levelQty w m lu
      match op with
      | "eq" => let r ← a.eq b; pure (.bool r)
      | "ne" => let r ← a.eq b; pure (.bool (!r))
      | "lt" => let r ← b.gt a; pure (.bool r)
      | "le" => let r ← b.ge a; pure (.bool r)
      | "gt" => let r ← b.lt a; pure (.bool r)
      | "ge" => let r ← b.le a; pure (.bool r)
      | _ => throw .unmodelled
  | .level m lu, .level n lv => do
      let a ← levelQty w m lu
      let b ← levelQty w n lv
      match op with
      | "eq" => let r ← a.eq b; pure (.bool r)
      | "ne" => let r ← a.eq b; pure (.bool (!r))
      | _ => throw .typeError
  | .meas a, other => do
      match ← toMeas w other with
      | some b => mm a b false
      | none => if op == "eq" then pure (.bool false) else if op == "ne" then pure (.bool true) else throw .typeError
  | other, .meas b => do
      match ← toMeas w other with
      | some a => mm b a true
      | none => if op == "eq" then pure (.bool false) else if op == "ne" then pure (.bool true) else throw .typeError
  | .unit a, .unit b =>
      match op with
      | "eq" => pure (.bool (a == b))
      | "ne" => pure (.bool (a != b))
      | _ => throw .typeError
  | _, _ => fallback

/-- The extended operations of the line protocol. -/
def exec (w : World α) (op : String) (args : List (Arg α)) : World α × Ret α :=
  match op, args with
  | "qnew", [.num m, .unit u] => (w, .qty { mag := m, unit := u })
  | "add", [x, y] | "sub", [x, y] | "mul", [x, y] | "div", [x, y] => runCM w (arith w op x y) id
  | "eq", [x, y] | "ne", [x, y] | "lt", [x, y] | "le", [x, y] | "gt", [x, y] | "ge", [x, y] =>
      runCM w (compare w op x y) id
  | "pow", [.qty q, .int n] => runCM w (q.pow n) .qty
  | "pow", [.unit u, .int n] => runCM w (liftSt (fun s => s.powUnit u n)) .unit
  | "pow", [.meas m, .int n] => runCM w (m.pow n) .meas
  | "pow", [.pfx p, .int n] => (w, .pfx (p.pow n))
  | "root", [.qty q, .int n] => runCM w (q.root n) .qty
  | "root", [.unit u, .int n] => runCM w (liftStE (fun s => s.rootUnit u n)) .unit
  | "root", [.pfx p, .int n] => (match p.root n with | .ok r => (w, .pfx r) | .error e => (w, .err e))
  | "neg", [.qty q] => (w, .qty q.neg)
  | "pos", [.qty q] => (w, .qty q)
  | "abs", [.qty q] => (w, .qty q.abs)
  | "conv", [.qty q, .unit u] => runCM w (convert q u) .qty
  | "unpre", [.qty q] => runCM w (unprefixedQty q) .qty
  | "quantify", [.unit u] => runCM w (quantifyUnit u) .qty
  | "pvalue", [.pfx p] => (w, .mag (Pfx.value p))
  | "equate", [.qty a, .qty b] => runCM w (equate a b) (fun _ => .none)
  | "translate", [.unit u, .qty z] => runCM w (translate u z) (fun _ => .none)
  | "plan", [.unit a, .unit b] => runCM w (planConversion a b) .plan
  | "path", [.unit a, .unit b] =>
      runCM w (findPath a b) (fun p => .plan [{ ratio := .int 1, path := p, exp := 1 }])
  | "mnew", [.qty q, .num s] => (w, .meas (Meas.mk' q s))
  | "approx", [.qty q, .num s] => (w, .meas (approximately q s))
  | "lunit", [.num base, .pfx p, .qty ref] =>
      -- `Logarithm(base, prefix)[reference]`: interned by (logarithm, reference); two references
      -- are the same key when magnitude and unit object are equal (hash, then ==)
      (match w.lus.findIdx? (fun l => Mag.beq l.base base && l.pfx == p && Mag.beq l.key.mag ref.mag
                                        && l.key.unit == ref.unit) with
       | some i => (w, .lunit i)
       | none =>
         let (w', r) := runCM w (unprefixedQty ref) .qty
         (match r with
          | .qty q => ({ w' with lus := w'.lus.push { base := base, pfx := p, reference := q, key := ref } }, .lunit w'.lus.size)
          | other => (w', other)))
  | "lnew", [.num m, .int lu] => (w, .level m lu.toNat)
  | "level", [.int lu, .qty q] =>
      (match w.lus[lu.toNat]? with
       | some l => runCM w (l.level w.rootPower q) (fun m => .level m lu.toNat)
       | none => (w, .err .unmodelled))
  | "lquant", [.level m lu] => runCM w (levelQty w m lu) .qty
  | "ustr", [.unit u] => runCM w (unitStr u) .str
  | "qstr", [.qty q] => runCM w (quantityStr q) .str
  | "ufmt", [.unit u] => runCM w (unitFormatRatio u) .str
  -- pickle / copy / deepcopy / JSON of a unit: re-enter the interning constructor
  | "reenter", [.unit u] => runCM w (liftStE (fun s => s.reenterUnit u)) .unit
  -- pickle / copy of a quantity: same magnitude, the unit re-entered
  | "qreenter", [.qty q] => runCM w (do let u ← liftStE (fun s => s.reenterUnit q.unit); pure { q with unit := u }) .qty
  -- JSON / SQL composite of a quantity: the unit travels as `str(unit)` and is parsed back
  | "qtext", [.qty q] => runCM w (do let t ← unitStr q.unit; let u ← parseUnit w.g t; pure { q with unit := u }) .qty
  | "uparse", [.str t] => runCM w (parseUnit w.g t) .unit
  | "qparse", [.str t] => runCM w (parseQuantity w.g t) .qty
  | _, _ => (w, .err .unmodelled)

end

end World

end Measured
