/-
  Per-run obligations: CONNECTED ⇒ CONVERTS on the shipped definitions.  The path search is complete
  on flat dimensions (Proofs/FlatComplete.lean: an empty result means the target is unreachable) and
  total on the regenerated graph (Proofs/PathTotalN.lean); here the kernel checks that the units of each
  fundamental dimension that occur in the regenerated graph are mutually reachable along declared
  edges.  Hence: any two of them, with ANY prefixes, convert into each other in every state reached by
  unit operations — no ConversionNotFound, no other exception.
-/
import Proofs.FlatComplete
import Obligations.C04Near
import Obligations.C05Near

namespace Measured.Obligations.NearShipped
open Measured Measured.Obligations Measured.Obligations.Direct Generated St

/-! ### a reachability certificate the kernel can evaluate -/

def nbrs (R : Table (Mag Rat)) (x : UId) : List UId := (R.row x).map (·.1)

def insertAll (l : List UId) (xs : List UId) : List UId :=
  xs.foldl (fun acc x => if acc.contains x then acc else acc ++ [x]) l

def expand (R : Table (Mag Rat)) (l : List UId) : List UId := insertAll l (l.flatMap (nbrs R))

def reachSet (R : Table (Mag Rat)) (a : UId) : Nat → List UId
  | 0 => [a]
  | n + 1 => expand R (reachSet R a n)

theorem mem_insertAll {l xs : List UId} {x : UId} (h : x ∈ insertAll l xs) : x ∈ l ∨ x ∈ xs := by
  unfold insertAll at h
  induction xs generalizing l with
  | nil => exact Or.inl h
  | cons y ys ih =>
    simp only [List.foldl_cons] at h
    rcases ih h with h1 | h1
    · split at h1
      · exact Or.inl h1
      · rcases List.mem_append.1 h1 with h2 | h2
        · exact Or.inl h2
        · simp only [List.mem_singleton] at h2; subst h2; exact Or.inr List.mem_cons_self
    · exact Or.inr (List.mem_cons_of_mem _ h1)

/-- everything in the set is a unit from which whatever it reaches is reached from `a` too -/
theorem reachSet_sound (R : Table (Mag Rat)) (a : UId) : ∀ (n : Nat) (x : UId), x ∈ reachSet R a n →
    ∀ b, Reaches R b x → Reaches R b a := by
  intro n
  induction n with
  | zero =>
    intro x hx b hb
    simp only [reachSet, List.mem_singleton] at hx
    subst hx; exact hb
  | succ n ih =>
    intro x hx b hb
    unfold reachSet expand at hx
    rcases mem_insertAll hx with h | h
    · exact ih x h b hb
    · obtain ⟨y, hy, hxy⟩ := List.mem_flatMap.1 h
      unfold nbrs at hxy
      obtain ⟨e, he, rfl⟩ := List.mem_map.1 hxy
      exact ih y hy b (Reaches.step (m := e.2) he hb)

theorem reaches_of_mem {R : Table (Mag Rat)} {a t : UId} {n : Nat} (h : t ∈ reachSet R a n) : Reaches R t a :=
  reachSet_sound R a n t h t Reaches.here

/-- iterate `step` until the set stops growing (at most `fuel` times) -/
def fixFrom (step : List UId → List UId) : Nat → List UId → List UId
  | 0, l => l
  | fuel + 1, l => let l' := step l; if l'.length == l.length then l else fixFrom step fuel l'

theorem fixFrom_iter (step : List UId → List UId) : ∀ (fuel : Nat) (l : List UId),
    ∃ n, fixFrom step fuel l = Nat.iterate step n l := by
  intro fuel
  induction fuel with
  | zero => intro l; exact ⟨0, rfl⟩
  | succ fuel ih =>
    intro l
    unfold fixFrom
    simp only
    split
    · exact ⟨0, rfl⟩
    · obtain ⟨n, hn⟩ := ih (step l)
      exact ⟨n + 1, by rw [hn]; rfl⟩

theorem reachSet_iter (R : Table (Mag Rat)) (a : UId) : ∀ n, Nat.iterate (expand R) n [a] = reachSet R a n := by
  intro n
  induction n with
  | zero => rfl
  | succ n ih => rw [Function.iterate_succ_apply', ih]; rfl

/-- forward closure of `a`: everything found is reachable from `a` -/
def reachAll (R : Table (Mag Rat)) (a : UId) : List UId := fixFrom (expand R) R.length [a]

theorem reaches_of_mem_all {R : Table (Mag Rat)} {a t : UId} (h : t ∈ reachAll R a) : Reaches R t a := by
  unfold reachAll at h
  obtain ⟨n, hn⟩ := fixFrom_iter (expand R) R.length [a]
  rw [hn, reachSet_iter] at h
  exact reaches_of_mem h

theorem reaches_trans {R : Table (Mag Rat)} {b x a : UId} (h1 : Reaches R b x) (h2 : Reaches R x a) : Reaches R b a := by
  induction h2 with
  | here => exact h1
  | step he _ ih => exact Reaches.step he ih

/-! ### the fundamental classes of the regenerated graph -/

def fundOk (d : Dim) : Bool :=
  decide (d.weight ≤ 1) && !d.isNumber && d.isFactor d && (d.div d).isNumber && !d.any (fun x => decide (x < 0))

/-- units with a non-empty row whose dimension is fundamental -/
def fundNodes : List UId :=
  (shipped.ratios.filter (fun r => !r.2.isEmpty)).map (·.1) |>.filter (fun u =>
    decide (u < init.units.length) && fundOk (init.dimOfUnit u))


/-- the units with an edge INTO `x` -/
def preds (R : Table (Mag Rat)) (x : UId) : List UId :=
  (R.map (·.1)).filter (fun y => (R.row y).any (fun e => e.1 == x))

def expandBack (R : Table (Mag Rat)) (l : List UId) : List UId := insertAll l (l.flatMap (preds R))

/-- units from which `r` is reached, by backward search -/
def backSet (R : Table (Mag Rat)) (r : UId) : Nat → List UId
  | 0 => [r]
  | n + 1 => expandBack R (backSet R r n)

theorem backSet_sound (R : Table (Mag Rat)) (r : UId) : ∀ (n : Nat) (x : UId), x ∈ backSet R r n → Reaches R r x := by
  intro n
  induction n with
  | zero =>
    intro x hx
    simp only [backSet, List.mem_singleton] at hx
    subst hx; exact Reaches.here
  | succ n ih =>
    intro x hx
    unfold backSet expandBack at hx
    rcases mem_insertAll hx with h | h
    · exact ih x h
    · obtain ⟨y, hy, hxy⟩ := List.mem_flatMap.1 h
      unfold preds at hxy
      have h2 := (List.mem_filter.1 hxy).2
      obtain ⟨e, he, hey⟩ := List.any_eq_true.1 h2
      have : e.1 = y := by simpa using hey
      subst this
      exact Reaches.step (m := e.2) he (ih _ hy)

theorem backSet_iter (R : Table (Mag Rat)) (r : UId) : ∀ n, Nat.iterate (expandBack R) n [r] = backSet R r n := by
  intro n
  induction n with
  | zero => rfl
  | succ n ih => rw [Function.iterate_succ_apply', ih]; rfl

/-- backward closure of `r`: everything found reaches `r` -/
def backAll (R : Table (Mag Rat)) (r : UId) : List UId := fixFrom (expandBack R) R.length [r]

theorem back_sound_all {R : Table (Mag Rat)} {r x : UId} (h : x ∈ backAll R r) : Reaches R r x := by
  unfold backAll at h
  obtain ⟨n, hn⟩ := fixFrom_iter (expandBack R) R.length [r]
  rw [hn, backSet_iter] at h
  exact backSet_sound R r n x h

/-- the first fundamental node of each dimension -/
def roots : List UId :=
  fundNodes.filter (fun u => fundNodes.find? (fun r => init.dimOfUnit r == init.dimOfUnit u) == some u)

/-- every fundamental node is reached from the root of its dimension and reaches it -/
def fundConnected : Bool :=
  let table := roots.map (fun r => (r, reachAll shipped.ratios r, backAll shipped.ratios r))
  fundNodes.all (fun u => table.any (fun e =>
    (init.dimOfUnit e.1 == init.dimOfUnit u) && e.2.1.contains u && e.2.2.contains u))

theorem fund_connected : fundConnected = true := by decide +kernel

theorem back_sound {R : Table (Mag Rat)} {r x : UId} {n : Nat} (h : x ∈ backSet R r n) : Reaches R r x :=
  backSet_sound R r n x h

set_option maxRecDepth 8000 in
theorem fund_reaches {u v : UId} (hu : u ∈ fundNodes) (hv : v ∈ fundNodes)
    (hd : init.dimOfUnit u = init.dimOfUnit v) : Reaches shipped.ratios v u := by
  have hc := fund_connected
  unfold fundConnected at hc
  simp only [List.all_eq_true, List.any_eq_true, List.mem_map, Bool.and_eq_true, beq_iff_eq, List.contains_iff_mem] at hc
  obtain ⟨e1, ⟨r1, _, rfl⟩, ⟨hd1, _⟩, hb1⟩ := hc u hu
  obtain ⟨e2, ⟨r2, _, rfl⟩, ⟨hd2, hf2⟩, _⟩ := hc v hv
  simp only at hd1 hb1 hd2 hf2
  -- both roots are THE root of the common dimension
  have hr : r1 = r2 := by
    have h1 := (List.mem_filter.1 ‹r1 ∈ roots›).2
    have h2 := (List.mem_filter.1 ‹r2 ∈ roots›).2
    simp only [beq_iff_eq] at h1 h2
    have e : (fun r => init.dimOfUnit r == init.dimOfUnit r1) = (fun r => init.dimOfUnit r == init.dimOfUnit r2) := by
      funext r; rw [hd1, hd2, hd]
    have h1' : fundNodes.find? (fun r => init.dimOfUnit r == init.dimOfUnit r2) = some r1 := e ▸ h1
    exact Option.some.inj (h1'.symm.trans h2)
  subst hr
  exact reaches_trans (reaches_of_mem_all hf2) (back_sound_all hb1)

/-- **Connected ⇒ converts, on the shipped definitions**: any two units of one fundamental dimension that
    occur in the regenerated graph (90 units in 6 dimensions on the pinned tree), with any prefixes, convert into
    each other in every state reached by unit operations. -/
theorem shipped_fundamental_units_interconvert (ops : List Op) {c₁ : Conv Rat}
    (hc₁ : c₁ = { shipped with st := run shipped.st ops }) {u v : UId} (hu : u ∈ fundNodes) (hv : v ∈ fundNodes)
    (hd : init.dimOfUnit u = init.dimOfUnit v) {q : Qty Rat} {t : UId}
    (hq : q.unit < c₁.st.units.length) (ht : t < c₁.st.units.length)
    (hsf : (c₁.st.unit! q.unit).factors = [(u, 1)]) (htf : (c₁.st.unit! t).factors = [(v, 1)]) :
    ∃ r c', CM.exec (convert q t) c₁ = (.ok r, c') := by
  obtain ⟨g, f⟩ := units_graphNear shipped_graphNear ops
  rw [← hc₁] at g f
  have w := shipped_graphWF.frameN shipped_graphNear f
  have hu' := (List.mem_filter.1 hu).2
  have hv' := (List.mem_filter.1 hv).2
  simp only [Bool.and_eq_true, decide_eq_true_eq] at hu' hv'
  obtain ⟨hul, hfu⟩ := hu'
  obtain ⟨hvl, _⟩ := hv'
  unfold fundOk at hfu
  simp only [Bool.and_eq_true, decide_eq_true_eq, Bool.not_eq_true'] at hfu
  obtain ⟨⟨⟨⟨hw, hnn⟩, hfac⟩, hnum⟩, hneg⟩ := hfu
  have hreach : Reaches c₁.ratios v u := by rw [f.ratios]; exact fund_reaches hu hv hd
  exact convert_flat_connected (d := init.dimOfUnit u) bnd σS_pos g w hq ht
    (Nat.lt_of_lt_of_le hul f.ext.len) (Nat.lt_of_lt_of_le hvl f.ext.len) hsf htf
    (f.ext.dimOfUnit hul) ((f.ext.dimOfUnit hvl).trans hd.symm) hw hnn hfac hnum hneg hreach

theorem fund_nodes_nonempty : 2 ≤ fundNodes.length := by decide +kernel

theorem fund_gcd {u : UId} (hu : u ∈ fundNodes) : (init.dimOfUnit u).gcdAll = 1 ∧ u < init.units.length := by
  have hu' := (List.mem_filter.1 hu).2
  simp only [Bool.and_eq_true, decide_eq_true_eq] at hu'
  obtain ⟨hul, hfu⟩ := hu'
  unfold fundOk at hfu
  simp only [Bool.and_eq_true, decide_eq_true_eq, Bool.not_eq_true'] at hfu
  obtain ⟨⟨⟨⟨hw, hnn⟩, _⟩, _⟩, _⟩ := hfu
  have h1 := gcdAll_le_one hw
  have h2 := gcdAll_ne_zero hnn
  have : (init.dimOfUnit u).gcdAll ≠ 0 := by intro h0; apply h2; rw [h0]; rfl
  exact ⟨by omega, hul⟩

/-- **Connected ⇒ converts for simple units on the shipped definitions**: products of powers of graph units of
    fundamental dimensions, any prefixes, pairing up key by key (km/h → mi/s, kg·m² → lb·ft², …): `convert`
    returns a quantity in every state reached by unit operations. -/
theorem shipped_simple_units_interconvert (ops : List Op) {c₁ : Conv Rat}
    (hc₁ : c₁ = { shipped with st := run shipped.st ops }) {K : List Dim} (hK : keysOkB K = true)
    {q : Qty Rat} {t : UId} {plan : List (Rough Rat)}
    (hq : q.unit < c₁.st.units.length) (ht : t < c₁.st.units.length)
    (hdqt : c₁.st.dimOfUnit q.unit = c₁.st.dimOfUnit t)
    (hfs : ∀ f ∈ (c₁.st.unit! q.unit).factors, factorOkB K c₁.st σS f = true)
    (hft : ∀ f ∈ (c₁.st.unit! t).factors, factorOkB K c₁.st σS f = true)
    (hspec : matchSpec (splat c₁.st t).byComplexFirst (splat c₁.st q.unit) (splat c₁.st t) [] = some ([], [], plan))
    (hnodes : ∀ r ∈ plan, r.start ∈ fundNodes ∧ r.stop ∈ fundNodes ∧ init.dimOfUnit r.start = init.dimOfUnit r.stop) :
    ∃ r c', CM.exec (convert q t) c₁ = (.ok r, c') := by
  obtain ⟨g, f⟩ := units_graphNear shipped_graphNear ops
  rw [← hc₁] at g f
  obtain ⟨hK1, hKw⟩ := keysOkB_sound hK
  refine convert_simple_connected bnd σS_pos g (shipped_graphWF.frameN shipped_graphNear f) hq ht
    ⟨hK1, hKw, fun f hf => factorOkB_sound (hfs f hf), fun f hf => factorOkB_sound (hft f hf), hspec⟩ hdqt ?_
  intro r hr
  obtain ⟨h1, h2, h3⟩ := hnodes r hr
  obtain ⟨g1, l1⟩ := fund_gcd h1
  obtain ⟨_, l2⟩ := fund_gcd h2
  refine ⟨?_, ?_, ?_⟩
  · rw [f.ext.dimOfUnit l1, f.ext.dimOfUnit l2]; exact h3
  · rw [f.ext.dimOfUnit l1]; exact g1
  · rw [f.ratios]; exact fund_reaches h1 h2 h3

/-- inhabited: 60 mile/hour → meter/second (`shipped_simple_inhabited`'s state and units) -/
def speedNodesCheck : Bool :=
  (cS.st.unit! mph).factors.all (factorOkB KspeedS cS.st σS) && (cS.st.unit! mps).factors.all (factorOkB KspeedS cS.st σS) &&
  decide (mph < cS.st.units.length) && decide (mps < cS.st.units.length) &&
  (cS.st.dimOfUnit mph == cS.st.dimOfUnit mps) &&
  (match matchSpec (splat cS.st mps).byComplexFirst (splat cS.st mph) (splat cS.st mps) [] with
   | some (s', t', plan) => s'.isEmpty && t'.isEmpty && plan.all (fun r =>
       fundNodes.contains r.start && fundNodes.contains r.stop && (init.dimOfUnit r.start == init.dimOfUnit r.stop))
   | none => false)

theorem speed_nodes_evaluates : speedNodesCheck = true := by decide +kernel

set_option maxRecDepth 8000 in
theorem shipped_speed_converts : ∃ r c', CM.exec (convert q60 mps) cS = (.ok r, c') := by
  have hc := speed_nodes_evaluates
  unfold speedNodesCheck at hc
  simp only [Bool.and_eq_true, decide_eq_true_eq, List.all_eq_true, beq_iff_eq] at hc
  obtain ⟨⟨⟨⟨⟨hfs, hft⟩, hq⟩, ht⟩, hd⟩, hspec⟩ := hc
  cases hm : matchSpec (splat cS.st mps).byComplexFirst (splat cS.st mph) (splat cS.st mps) [] with
  | none => rw [hm] at hspec; simp at hspec
  | some res =>
    obtain ⟨s', t', plan⟩ := res
    rw [hm] at hspec
    simp only [Bool.and_eq_true, List.isEmpty_iff, List.all_eq_true, beq_iff_eq, List.contains_iff_mem] at hspec
    obtain ⟨⟨rfl, rfl⟩, hn⟩ := hspec
    exact shipped_simple_units_interconvert speedOps (c₁ := cS) rfl speedS_keys (q := q60) (t := mps) hq ht hd
      (fun f hf => hfs f hf) (fun f hf => hft f hf) hm (fun r hr => ⟨(hn r hr).1.1, (hn r hr).1.2, (hn r hr).2⟩)

end Measured.Obligations.NearShipped
