/-
  Proofs/PlanMode.lean — `python -O` changes nothing for conversions between simple units: the same
  result, the same interning, through the factor planner.
-/
import Proofs.PlanTotal
import Proofs.ConvertMode

namespace Measured
open St

variable {σ : UId → Rat}

theorem inlinePaths_mode (x : Bool) : ∀ (plan : List (Rough Rat)) (c c' : Conv Rat) (P : Plan Rat),
    GraphOK σ c → GraphWF c → (∀ r ∈ plan, r.start < c.st.units.length ∧ r.stop < c.st.units.length ∧
      c.st.dimOfUnit r.start = c.st.dimOfUnit r.stop) →
    CM.exec (inlinePaths plan) c = (.ok P, c') →
    CM.exec (inlinePaths plan) (withAsserts x c) = (.ok P, withAsserts x c') := by
  intro plan
  induction plan with
  | nil =>
    intro c c' P _ _ _ hx
    unfold inlinePaths at hx ⊢
    simp only [List.mapM_nil, exec_pure, Prod.mk.injEq, Except.ok.injEq] at hx ⊢
    obtain ⟨rfl, rfl⟩ := hx
    exact ⟨rfl, rfl⟩
  | cons r rest ih =>
    intro c c' P hg hw hv hx
    obtain ⟨hrs, hrt, hrd⟩ := hv r List.mem_cons_self
    unfold inlinePaths at hx ⊢
    simp only [List.mapM_cons] at hx ⊢
    obtain ⟨p, c1, h1, hx⟩ := exec_bind_ok hx
    obtain ⟨path, c0, h0, h1⟩ := exec_bind_ok h1
    obtain ⟨g0, f0, _⟩ := findPath_sound hg hrs hrt h0
    have w0 := hw.frame hg f0
    have h0' := findPath_mode hg hw hrs hrt hrd h0 x
    rw [exec_bind, exec_bind, h0']
    simp only
    by_cases hpe : path.isEmpty = true
    · simp only [hpe, ↓reduceIte] at h1
      rw [exec_bind, exec_throw] at h1; simp at h1
    · simp only [hpe, Bool.false_eq_true, ↓reduceIte, exec_pure, Prod.mk.injEq, Except.ok.injEq] at h1 ⊢
      obtain ⟨rfl, rfl⟩ := h1
      obtain ⟨Ps, c2, h2, hx⟩ := exec_bind_ok hx
      rw [exec_pure] at hx
      simp only [Prod.mk.injEq, Except.ok.injEq] at hx
      obtain ⟨rfl, rfl⟩ := hx
      have h2' : CM.exec (inlinePaths rest) c0 = (.ok Ps, c2) := by unfold inlinePaths; exact h2
      have := ih c0 c2 Ps g0 w0 (fun y hy => by
        obtain ⟨a1, a2, a3⟩ := hv y (List.mem_cons_of_mem _ hy)
        exact ⟨f0.lt a1, f0.lt a2, by rw [f0.ext.dimOfUnit a1, f0.ext.dimOfUnit a2]; exact a3⟩) h2'
      unfold inlinePaths at this
      rw [exec_bind, this]
      simp only [exec_pure]

/-- **`-O` changes nothing for conversions between simple units.** -/
theorem convert_simple_mode (hσ : ∀ k, σ k ≠ 0) {K : List Dim} {plan : List (Rough Rat)} {c c' : Conv Rat} {q r : Qty Rat} {t : UId}
    (hg : GraphOK σ c) (hwf : GraphWF c) (hoff : c.offsets = [])
    (hq : q.unit < c.st.units.length) (ht : t < c.st.units.length)
    (hsp : SimplePair σ K c q.unit t plan)
    (hdims : ∀ r ∈ plan, c.st.dimOfUnit r.start = c.st.dimOfUnit r.stop)
    (hx : CM.exec (convert q t) c = (.ok r, c')) (x : Bool) :
    CM.exec (convert q t) (withAsserts x c) = (.ok r, withAsserts x c') := by
  have hdqt : c.st.dimOfUnit q.unit = c.st.dimOfUnit t := by
    by_contra hne
    have hbne : (c.st.dimOfUnit q.unit != c.st.dimOfUnit t) = true := by simpa using hne
    unfold convert at hx
    rw [exec_bind, exec_getSt] at hx
    simp only [hbne, ↓reduceIte] at hx
    rw [exec_bind, exec_throw] at hx
    simp at hx
  obtain ⟨ga, fa⟩ := unprefixStep hg hq
  have wa := hwf.frame hg fa
  obtain ⟨gb, fb⟩ := unprefixStep ga (fa.lt ht)
  have wb := wa.frame ga fb
  have fab := fa.trans fb
  have hdb : ({ c with st := ((c.st.unprefixedUnit q.unit).1.unprefixedUnit t).1 } : Conv Rat).st.dimOfUnit q.unit =
      ({ c with st := ((c.st.unprefixedUnit q.unit).1.unprefixedUnit t).1 } : Conv Rat).st.dimOfUnit t := by
    rw [fab.ext.dimOfUnit hq, fab.ext.dimOfUnit ht]; exact hdqt
  obtain ⟨p0, c2, hfp0⟩ := findPath_total gb wb (fab.lt hq) (fab.lt ht) hdb
  by_cases hp0 : p0 = []
  · subst hp0
    obtain ⟨g2, f2, _, _, _⟩ := findPath_sound gb (fab.lt hq) (fab.lt ht) hfp0
    have w2 := wb.frame gb f2
    have fab2 := fab.trans f2
    have hfp0x := findPath_mode gb wb (fab.lt hq) (fab.lt ht) hdb hfp0 x
    have hfacq : (((c.st.unprefixedUnit q.unit).1.unprefixedUnit t).1.unit! q.unit).factors = (c.st.unit! q.unit).factors :=
      (fab.ext.same q.unit hq).2.1
    have hfact : (((c.st.unprefixedUnit q.unit).1.unprefixedUnit t).1.unit! t).factors = (c.st.unit! t).factors :=
      (fab.ext.same t ht).2.1
    have hFOK : ∀ f, f.1 < c.st.units.length → FactorOK K c.st f →
        FactorOK K ((c.st.unprefixedUnit q.unit).1.unprefixedUnit t).1 f := by
      intro f hf hok
      unfold FactorOK at hok ⊢
      rw [fab.ext.dimOfUnit hf]; exact hok
    have hfs' : ∀ f ∈ (((c.st.unprefixedUnit q.unit).1.unprefixedUnit t).1.unit! q.unit).factors,
        FactorOK K ((c.st.unprefixedUnit q.unit).1.unprefixedUnit t).1 f := by
      rw [hfacq]; intro f hf; exact hFOK f (hsp.srcOK f hf).2.1 (hsp.srcOK f hf).1
    have hft' : ∀ f ∈ (((c.st.unprefixedUnit q.unit).1.unprefixedUnit t).1.unit! t).factors,
        FactorOK K ((c.st.unprefixedUnit q.unit).1.unprefixedUnit t).1 f := by
      rw [hfact]; intro f hf; exact hFOK f (hsp.dstOK f hf).2.1 (hsp.dstOK f hf).1
    have hsq : splat ((c.st.unprefixedUnit q.unit).1.unprefixedUnit t).1 q.unit = splat c.st q.unit :=
      splat_ext fab.ext hq (fun f hf => (hsp.srcOK f hf).2.1)
    have hst : splat ((c.st.unprefixedUnit q.unit).1.unprefixedUnit t).1 t = splat c.st t :=
      splat_ext fab.ext ht (fun f hf => (hsp.dstOK f hf).2.1)
    have hpt : ((c.st.unprefixedUnit q.unit).1.unit! t).pfx = (c.st.unit! t).pfx := fa.pfx ht
    have hptpos : Pfx.val (c.st.unit! t).pfx ≠ 0 := ne_of_gt (Pfx.val_pos (canon_pfx hg.canon ht))
    obtain ⟨head, hhead⟩ := recip_ok (m := (Pfx.value ((c.st.unprefixedUnit q.unit).1.unit! t).pfx : Mag Rat))
      (by rw [Pfx.value_val, hpt]; exact hptpos)
    obtain ⟨hpc, _, _, _⟩ := planConversion_simple hsp.keys hsp.light (fun _ => (1 : Rat)) (fun _ => one_ne_zero)
      (c := { c with st := (c.st.unprefixedUnit q.unit).1 }) hfs' hft' hhead hfp0 (by rw [hsq, hst]; exact hsp.paired)
    obtain ⟨hpcx, _, _, _⟩ := planConversion_simple hsp.keys hsp.light (fun _ => (1 : Rat)) (fun _ => one_ne_zero)
      (c := withAsserts x { c with st := (c.st.unprefixedUnit q.unit).1 }) (c2 := withAsserts x c2)
      hfs' hft' hhead hfp0x (by simp only [withAsserts_st]; rw [hsq, hst]; exact hsp.paired)
    have hone2 : c.st.one < c2.st.units.length := fab2.lt hg.inv.1.oneLt
    have hone' : ((c.st.unprefixedUnit q.unit).1).one = c.st.one := fa.ext.one
    have hvalid : ∀ y ∈ plan ++ [Rough.mk head ((c.st.unprefixedUnit q.unit).1).one ((c.st.unprefixedUnit q.unit).1).one 1],
        y.start < c2.st.units.length ∧ y.stop < c2.st.units.length ∧ c2.st.dimOfUnit y.start = c2.st.dimOfUnit y.stop := by
      intro y hy
      rcases List.mem_append.1 hy with hy | hy
      · rcases matchSpec_units _ _ _ _ _ _ _ hsp.paired y hy with h0 | ⟨h1, h2⟩
        · cases h0
        · obtain ⟨f1, hf1, e1⟩ := splat_units c.st q.unit _ h1
          obtain ⟨f2', hf2, e2⟩ := splat_units c.st t _ h2
          have v1 : y.start < c.st.units.length := by rw [← e1]; exact (hsp.srcOK f1 hf1).2.1
          have v2 : y.stop < c.st.units.length := by rw [← e2]; exact (hsp.dstOK f2' hf2).2.1
          exact ⟨fab2.lt v1, fab2.lt v2, by rw [fab2.ext.dimOfUnit v1, fab2.ext.dimOfUnit v2]; exact hdims y hy⟩
      · simp only [List.mem_singleton] at hy
        subst hy
        simp only [hone']
        exact ⟨hone2, hone2, trivial⟩
    -- decompose the given run
    unfold convert at hx ⊢
    obtain ⟨s0, c0, h0, hx⟩ := exec_bind_ok hx
    rw [exec_getSt] at h0
    simp only [Prod.mk.injEq, Except.ok.injEq] at h0
    obtain ⟨rfl, rfl⟩ := h0
    rw [exec_bind, exec_getSt]
    simp only [withAsserts_st]
    have hbne : (c.st.dimOfUnit q.unit != c.st.dimOfUnit t) = false := by simp [hdqt]
    simp only [hbne, Bool.false_eq_true, ↓reduceIte] at hx ⊢
    obtain ⟨this, c1, h1, hx⟩ := exec_bind_ok hx
    rw [exec_unprefixedQty] at h1
    simp only [Prod.mk.injEq, Except.ok.injEq] at h1
    obtain ⟨rfl, rfl⟩ := h1
    rw [exec_bind, exec_unprefixedQty]
    simp only [withAsserts_st]
    obtain ⟨P, c3, h2, hx⟩ := exec_bind_ok hx
    rw [hpc] at h2
    have h2x := inlinePaths_mode x _ c2 c3 P g2 w2 hvalid h2
    have h2x' : CM.exec (planConversion q.unit t)
        ({ withAsserts x c with st := (c.st.unprefixedUnit q.unit).1 } : Conv Rat) = (.ok P, withAsserts x c3) := by
      have : ({ withAsserts x c with st := (c.st.unprefixedUnit q.unit).1 } : Conv Rat) =
          withAsserts x { c with st := (c.st.unprefixedUnit q.unit).1 } := rfl
      rw [this, hpcx]; exact h2x
    rw [exec_bind, h2x']
    simp only at hx ⊢
    obtain ⟨m, c4, h3, hx⟩ := exec_bind_ok hx
    rw [exec_liftE] at h3
    simp only [Prod.mk.injEq] at h3
    obtain ⟨h3, rfl⟩ := h3
    rw [exec_pure] at hx
    simp only [Prod.mk.injEq, Except.ok.injEq] at hx
    obtain ⟨rfl, rfl⟩ := hx
    rw [exec_bind, exec_liftE, h3]
    simp only [exec_pure]
  · exact convert_direct_mode hg hwf hq ht hx hfp0 hp0 x

end Measured
