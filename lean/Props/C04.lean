/-
  C04 — a conversion that returns a value returns the right value, in the asked unit.

  What is proved for every unit pair and every magnitude: the result carries the requested
  unit; the magnitude is the plan's affine map of the unprefixed magnitude; for an offset-free
  plan one coefficient per unit pair therefore decides the conversion for all magnitudes.
  That the coefficient equals size(source)/size(target) is established per run by evaluating
  the model's planner in the kernel on a family of unit pairs (Obligations/C04.lean) — the
  planner is a heuristic and is not sound for all units (known findings).
-/
import Proofs.ConvertVal

namespace Measured.C04
open Measured

/-- The value of a successful conversion: `A·(prefix·m) + B` with `(A, B)` depending only on
    the two units. -/
theorem convert_value {c c' : Conv Rat} {q r : Qty Rat} {t : UId}
    (h : CM.exec (convert q t) c = (.ok r, c')) :
    r.unit = t ∧ ∃ plan : List StepV,
      r.mag.val = (affineOf plan).1 * ((Pfx.value (c.st.unit! q.unit).pfx : Mag Rat).val * q.mag.val)
        + (affineOf plan).2 := by
  obtain ⟨hu, plan, _, hv⟩ := convert_ok h
  exact ⟨hu, plan.map PlanStep.toV, by rw [hv, applyPlanV_affine]⟩

/-- If a plan's coefficients are `(ρ, 0)` with `ρ` the ratio of the unit sizes, the plan
    converts **every** magnitude correctly: `m ↦ m·ρ`. -/
theorem value_determined_by_coefficient {plan : List StepV} {ρ : Rat}
    (h : affineOf plan = (ρ, 0)) (m : Rat) : applyPlanV m plan = ρ * m := by
  rw [applyPlanV_affine, h]; simp

/-- …and within a tolerance: coefficients within `δ` of `(ρ, 0)` give values within `δ·|m|`. -/
theorem value_close {plan : List StepV} {ρ δ : Rat}
    (hA : |(affineOf plan).1 - ρ| ≤ δ) (hB : (affineOf plan).2 = 0) (m : Rat) :
    |applyPlanV m plan - ρ * m| ≤ δ * |m| := by
  rw [applyPlanV_affine, hB]
  have : (affineOf plan).1 * m + 0 - ρ * m = ((affineOf plan).1 - ρ) * m := by ring
  rw [this, abs_mul]
  exact mul_le_mul_of_nonneg_right hA (abs_nonneg m)

end Measured.C04
