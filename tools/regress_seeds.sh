#!/bin/bash
# usage: regress_seeds.sh [seed-id-prefix...]  — re-runs every kept seeded defect against the checks recorded
# in its meta.json (caught_by) and prints one line per (seed, check): CAUGHT / MISSED.  Applies patches to /repo
# one at a time through try_seed.sh (which restores /repo and the evidence files) — run nothing else meanwhile.
cd /verif/seeded || exit 2
for d in */; do
  id=${d%/}
  if [ $# -gt 0 ]; then ok=0; for p in "$@"; do case $id in $p*) ok=1;; esac; done; [ $ok = 1 ] || continue; fi
  checks=$(python3 -c "import json;print(' '.join(json.load(open('$id/meta.json'))['caught_by']))")
  for c in $checks; do
    out=$(/verif/tools/try_seed.sh /verif/seeded/$id/patch.diff $c 2>&1)
    if echo "$out" | grep -q "^VIOLATION property=$c"; then
      if echo "$out" | grep -q "no-failing-input-found"; then echo "$id $c CAUGHT(no-failing-input-found)"; else echo "$id $c CAUGHT"; fi
    else echo "$id $c MISSED"; fi
  done
done
