"""C12 — comparisons are coherent: symmetric ==, physical total order, hash agrees.

Generator: pairs and triples of quantities of one dimension in arbitrary convertible units and
prefixes with int / float / Decimal magnitudes, magnitudes chosen so that physically equal and
nearly equal values occur (the second quantity is often the first re-expressed); measurements
with arbitrary non-negative uncertainties, levels, `approximately(...)`.  Every comparison is
executed in both argument orders.
Oracle (implementation only): == reflexive and symmetric; exactly one of < == > (away from
ties); <= and >= mirror; order agrees with exact SI values; sorting a mixed-unit list orders
it physically; equal quantities have equal hashes (known finding when the units differ);
x == y iff y == x for Measurement / Level / approximately.
"""
import struct
from decimal import Decimal
from fractions import Fraction as F

from measured import Level, Measurement, Quantity, Unit

from sizes import degree
from .convcommon import ConvContext, classify, ftok

LEVEL_TEXT = ("Lean (exact arithmetic): q == q is True in every canonical state (eq_refl, through the model's unprefix/intern path); "
              "on magnitudes of one unit == is symmetric, exactly one of <, ==, > holds, and < is transitive (beq_symm, "
              "mag_trichotomy, lt_trans'), and those orders are the orders of the SI values for every positive size assignment "
              "(C06.same_unit_order); comparisons between a Quantity and a Measurement/Level are symmetric by dispatch - both "
              "argument orders reach the same call (qty_meas_eq_symm, qty_level_eq_dispatch); the interval-overlap test of "
              "Measurement.__eq__ is symmetric and means 'the intervals share a point' (overlaps_symm, overlaps_iff), whereas the "
              "pre-fix test was not (overlapsOld_asymm); equal magnitudes on one unit object give equal hash keys "
              "(hash_same_unit). Per run the kernel evaluates, on the regenerated graph, the hash-contract counterexample "
              "1 ft == 12 in with different keys (known finding) and symmetry/mirror/trichotomy of the model's operators across "
              "units on family pairs. Across different units the laws hold relative to the conversion (C04). Tied to the code by "
              "differential execution in both argument orders and an exact-SI oracle incl. sorted(). For quantities in DIFFERENT units and prefixes whose comparison needs no conversion or a directly settled one, "
              "the model of the real __eq__/__lt__ is proved to decide by SI value in every reachable state (eq_decides_by_value, "
              "lt_decides_by_value), hence == is an equivalence there and exactly one of a<b, a==b, b<a holds "
              "(coherent_of_values).")
LEVEL_NOTE = ("Known finding C12-hash: hash(q) hashes (magnitude, unit object), so equal quantities in different units hash "
              "differently; repairing it needs conversions inside __hash__. Cross-unit laws inherit C04's partiality.")
TECHNIQUE = "Lean 4 proofs (order/equality laws on magnitudes and SI values, dispatch symmetry, interval overlap) + kernel-evaluated cases on regenerated data + differential correspondence + exact oracle"

THEOREMS = [
    "Measured.C12.eq_refl", "Measured.C12.beq_symm", "Measured.C12.mag_trichotomy", "Measured.C12.lt_trans'",
    "Measured.C12.overlaps_symm", "Measured.C12.overlaps_iff", "Measured.C12.overlapsOld_asymm",
    "Measured.C12.qty_meas_eq_symm", "Measured.C12.qty_level_eq_dispatch", "Measured.C12.hash_same_unit",
    "Measured.C06.same_unit_order",
    "Measured.Obligations.hash_contract_fails", "Measured.Obligations.family_comparisons_coherent",
    "Measured.C12.eq_decides_by_value", "Measured.C12.lt_decides_by_value", "Measured.C12.coherent_of_values",
    "Measured.C12.eq_decides_by_value_simple", "Measured.C12.lt_decides_by_value_simple",
]
LEAN_TARGETS = ["Props.C12", "Props.C12Direct", "Obligations.C12"]
QUICK = {"chunks": 4, "ops": 1500}
THOROUGH = {"chunks": 16, "ops": 8000}
RTOL = 1e-11
RULE = ("(x, y[, z], operator) with x, y quantities / measurements / levels of one dimension in different units; both "
        "argument orders; non-trivial = the two units differ or a measurement/level is involved; distinct by op text")
TIE = F(4, 10**9)


class Context(ConvContext):
    def __init__(self, sess, rng):
        super().__init__(sess, rng)
        self.results = {}     # (op, x, y) -> result line
        self.nm = 0
        self.nl = 0
        self.extra["hash_checks"] = 0
        self.extra["sorted_checks"] = 0


TO_K = {"kelvin": (F(1), F(0)), "celsius": (F(1), F(27315, 100)),
        "Rankine": (F(5, 9), F(0)), "fahrenheit": (F(5, 9), F(45967, 100) * F(5, 9))}


def scale_of(u):
    if len(u.factors) != 1:
        return None
    (f, e), = u.factors.items()
    if e != 1 or f.name not in TO_K:
        return None
    return f.name, u.prefix


def si(ctx, q):
    """physical value: kelvin for temperatures on a scale, else magnitude x exact unit size"""
    sc = scale_of(q.unit)
    if sc is not None:
        a, b = TO_K[sc[0]]
        p = sc[1]
        pv = F(p.base) ** p.exponent if p.base else F(1)
        return a * F(q.magnitude) * pv + b
    s = ctx.sizes.unit_size(q.unit)
    return None if s is None else F(q.magnitude) * s


def level_as_quantity(v):
    if isinstance(v, Quantity):
        return v
    if isinstance(v, Level):
        try:
            return v.quantify()
        except Exception:  # noqa: BLE001
            return None
    return None


MIRROR = {"eq": "eq", "ne": "ne", "lt": "gt", "gt": "lt", "le": "ge", "ge": "le"}


def oracle(ctx, line, res):
    f = line.split("\t")
    if f[0] == "X" and f[1] == "conv" and res.startswith("ok\tq"):
        # remember (source, its conversion): comparisons between the two are rounding ties
        try:
            ctx.conv_pairs = getattr(ctx, "conv_pairs", [])[-200:] + [(ctx.sess.arg(f[2]), ctx.sess.qs[-1])]
        except Exception:  # noqa: BLE001
            pass
    if f[0] != "X" or f[1] not in MIRROR or len(f) != 4:
        return []
    op, x, y = f[1], f[2], f[3]
    ctx.results[(op, x, y)] = res
    fails = []
    try:
        a, b = ctx.sess.arg(x), ctx.sess.arg(y)
    except Exception:  # noqa: BLE001
        return []
    ctx.oracle_checks += 1
    qa = a if isinstance(a, Quantity) else None
    qb = b if isinstance(b, Quantity) else None
    def unit_of(v):
        if isinstance(v, Quantity):
            return v.unit
        if isinstance(v, Measurement):
            return v.measurand.unit
        if isinstance(v, Level):
            return v.unit.reference.unit     # the unit of the quantity the level denotes
        return None
    ux, uy = unit_of(a), unit_of(b)
    cls = classify(ux, uy) if ux is not None and uy is not None else None

    def failure(kind, **kw):
        d = {"kind": kind, "class": cls, "opname": op, "x": str(a), "y": str(b)}
        if qa is not None and qb is not None:
            d.update({"from": str(qa.unit), "to": str(qb.unit)})
        d.update(kw)
        return d

    if res.startswith("ERR"):
        err = res[4:]
        if err == "Assertion" or err not in ("TypeError", "ConversionNotFound"):
            fails.append(failure("conversion-raises", error=err))
        return fails
    # mirrored call already seen?
    # The property demands the < / > and <= / >= mirror for QUANTITIES only; for comparisons that
    # involve a Measurement or a Level it demands symmetry of == (and !=) only.  (Measurement's
    # __lt__ compares lower bounds and __gt__ upper bounds, so a > b and b < a differ by design.)
    m = ctx.results.get((MIRROR[op], y, x))
    both_quantities = qa is not None and qb is not None
    if m is not None and not m.startswith("ERR") and m != res and (op in ("eq", "ne") or both_quantities):
        tie = False
        ta, tb = level_as_quantity(a), level_as_quantity(b)
        if not both_quantities and ta is not None and tb is not None and (isinstance(a, Level) or isinstance(b, Level)):
            # a level stands for the quantity it denotes (Level.__eq__ compares quantify()): the same rounding
            # ties as between two quantities (the level of q, taken back, is q up to an ulp of pow/log)
            sa, sb = si(ctx, ta), si(ctx, tb)
            tol = max(F(1, 10**9), F(1, 10**5) * (degree(ta.unit) + degree(tb.unit)))
            tie = sa is not None and sb is not None and abs(sa - sb) <= tol * max(abs(sa), abs(sb))
        if both_quantities:
            sa, sb = si(ctx, qa), si(ctx, qb)
            # a tie: equal up to float rounding, or up to the 1e-5-per-degree tolerance within which the
            # shipped definitions agree with each other (two conversion chains may differ by that much)
            tol = max(TIE, F(1, 10**5) * (degree(qa.unit) + degree(qb.unit)))
            # on the affine temperature scales a tie may sit at absolute zero (-459.67 °F vs 0 R): the
            # rounding error is relative to the offsets (hundreds of kelvin), not to the values
            floor = F(300) if (scale_of(qa.unit) is not None and scale_of(qb.unit) is not None) else 0
            tie = sa is not None and sb is not None and abs(sa - sb) <= tol * max(abs(sa), abs(sb), floor)
        if not tie:
            k = "comparison-asymmetric" if op in ("eq", "ne") else "comparison-not-mirrored"
            fails.append(failure(k, this=res, mirrored=m))
    # reflexive
    if x == y and op == "eq" and res != "ok\tb\ttrue" and isinstance(a, Quantity):
        fails.append(failure("eq-not-reflexive"))
    # agreement with SI values
    temps = qa is not None and qb is not None and scale_of(qa.unit) is not None and scale_of(qb.unit) is not None
    if qa is not None and qb is not None and qa.unit.dimension is qb.unit.dimension \
            and (temps or (not ctx.sizes.has_offset(qa.unit) and not ctx.sizes.has_offset(qb.unit))):
        sa, sb = si(ctx, qa), si(ctx, qb)
        if sa is not None and sb is not None:
            tol = max(TIE, F(1, 10**5) * (degree(qa.unit) + degree(qb.unit)))
            scale = max(abs(sa), abs(sb), F(300) if temps else 0)
            if abs(sa - sb) > tol * scale:
                want = {"eq": sa == sb, "ne": sa != sb, "lt": sa < sb, "le": sa <= sb, "gt": sa > sb, "ge": sa >= sb}[op]
                exp = "ok\tb\t%s" % ("true" if want else "false")
                if res != exp:
                    fails.append(failure("conversion-wrong", got=res, want=exp))
            # hash contract
            if op == "eq" and res == "ok\tb\ttrue":
                ctx.extra["hash_checks"] += 1
                if hash(qa) != hash(qb):
                    fails.append({"kind": "hash-differs-for-equal", "same_unit": qa.unit is qb.unit,
                                  "x": str(qa), "y": str(qb)})
    return fails


def skip_compare(ctx, line, res):
    """A comparison between two quantities whose SI values are within a rounding tie is decided by
    the last ulp of a float product; model (exact or differently associated) and implementation may
    legitimately differ there - the property itself excludes ties."""
    f = line.split("\t")
    if f[0] != "X" or f[1] not in MIRROR or len(f) != 4:
        return False
    try:
        a, b = ctx.sess.arg(f[2]), ctx.sess.arg(f[3])
    except Exception:  # noqa: BLE001
        return False
    qs = []
    for v in (a, b):
        if isinstance(v, Quantity):
            qs.append(v)
        elif isinstance(v, Measurement):
            qs.append(v.measurand)
        elif isinstance(v, Level) and level_as_quantity(v) is not None:
            qs.append(level_as_quantity(v))
        else:
            return False
    # A quantity compared with ITS OWN conversion (the generator does that on purpose) is a rounding tie
    # by construction - also when the conversion itself is wrong (planner classes): the model's float
    # path and the implementation's may legitimately land on different sides of it.
    ids = {id(qs[0]), id(qs[1])}
    if any({id(x), id(y)} == ids for x, y in getattr(ctx, "conv_pairs", [])):
        return True
    sa, sb = si(ctx, qs[0]), si(ctx, qs[1])
    if sa is None or sb is None:
        return False
    if isinstance(a, Measurement) or isinstance(b, Measurement):
        # interval end points may tie as well
        ua = F(a.uncertainty.magnitude) * ctx.sizes.unit_size(a.measurand.unit) if isinstance(a, Measurement) else 0
        ub = F(b.uncertainty.magnitude) * ctx.sizes.unit_size(b.measurand.unit) if isinstance(b, Measurement) else 0
        pts = [sa - ua, sa + ua], [sb - ub, sb + ub]
        scale = max(abs(sa), abs(sb), abs(ua), abs(ub))
        tol = max(TIE, F(1, 10**5) * (degree(qs[0].unit) + degree(qs[1].unit)))
        return any(abs(x - y) <= tol * scale for x in pts[0] for y in pts[1])
    tol = max(TIE, F(1, 10**5) * (degree(qs[0].unit) + degree(qs[1].unit)))
    floor = F(300) if all(scale_of(q.unit) is not None for q in qs) else 0
    return abs(sa - sb) <= tol * max(abs(sa), abs(sb), floor)


def final_oracle(ctx):
    """sorted() of mixed-unit lists orders physically; trichotomy over collected results."""
    rng = ctx.rng
    fails = []
    S = ctx.sizes
    clean = [u for u in ctx.clean_named if not S.has_offset(u)]
    bydim = {}
    for u in clean:
        bydim.setdefault(u.dimension, []).append(u)
    dims = [d for d, us in bydim.items() if len(us) >= 3]
    for _ in range(60):
        d = rng.choice(dims)
        qs = []
        for _ in range(rng.randint(3, 7)):
            u = rng.choice(bydim[d])
            if rng.random() < 0.4:
                u = rng.choice(ctx.si_prefixes) * u
            m = rng.choice([1, 2, 3.5, 10, 0.25, -4, 1000, Decimal("7.5")])
            qs.append(m * u)
        vals = [F(q.magnitude) * S.unit_size(q.unit) for q in qs]
        # skip lists with near ties
        sv = sorted(vals)
        if any(abs(x - y) <= F(1, 10**4) * max(abs(x), abs(y), 1) for x, y in zip(sv, sv[1:])):
            continue
        ctx.extra["sorted_checks"] += 1
        ctx.oracle_checks += 1
        try:
            got = sorted(qs)
        except Exception as e:  # noqa: BLE001
            fails.append({"kind": "sorted-raises", "error": type(e).__name__, "list": [str(q) for q in qs]})
            continue
        gv = [F(q.magnitude) * S.unit_size(q.unit) for q in got]
        if gv != sorted(gv):
            fails.append({"kind": "sorted-not-physical", "list": [str(q) for q in qs], "got": [str(q) for q in got]})
    # trichotomy on the collected comparison results
    for (op, x, y), r in list(ctx.results.items()):
        if op != "lt" or r.startswith("ERR"):
            continue
        e = ctx.results.get(("eq", x, y))
        g = ctx.results.get(("gt", x, y))
        if e is None or g is None or e.startswith("ERR") or g.startswith("ERR"):
            continue
        try:
            a, b = ctx.sess.arg(x), ctx.sess.arg(y)
        except Exception:  # noqa: BLE001
            continue
        if not (isinstance(a, Quantity) and isinstance(b, Quantity)):
            continue
        ctx.oracle_checks += 1
        n = sum(1 for t in (r, e, g) if t == "ok\tb\ttrue")
        if n != 1:
            sa, sb = si(ctx, a), si(ctx, b)
            tol = max(TIE, F(1, 10**5) * (degree(a.unit) + degree(b.unit)))
            floor = F(300) if (scale_of(a.unit) is not None and scale_of(b.unit) is not None) else 0
            if sa is not None and sb is not None and abs(sa - sb) > tol * max(abs(sa), abs(sb), floor):
                fails.append({"kind": "trichotomy", "class": classify(a.unit, b.unit), "x": str(a), "y": str(b),
                              "lt": r, "eq": e, "gt": g, "from": str(a.unit), "to": str(b.unit)})
    return fails


def nontrivial(ctx, line, res):
    f = line.split("\t")
    if f[0] == "X" and f[1] in MIRROR:
        return line
    return None


def generate(ctx, n_ops):
    rng = ctx.rng
    emitted = 0

    def build(fs, p):
        nonlocal emitted
        g = ctx.build(fs, p)
        try:
            line = next(g)
            while True:
                res = yield line
                emitted += 1
                line = g.send(res)
        except StopIteration as stop:
            return stop.value

    def qnew(m, u):
        nonlocal emitted
        res = yield "X\tqnew\t%s\tu%d" % (m, u)
        emitted += 1
        if res.startswith("ok\tq"):
            ctx.nq += 1
            return ctx.nq - 1
        return None

    def both_orders(x, y, ops):
        nonlocal emitted
        for op in ops:
            for p, q in ((x, y), (y, x)):
                o = op if (p, q) == (x, y) else MIRROR[op]
                res = yield "X\t%s\t%s\t%s" % (o, p, q)
                emitted += 1

    scales = [Unit._by_name[n] for n in TO_K]
    while emitted < n_ops:
        if rng.random() < 0.12:
            # temperatures on different (affine) scales, zero and negative readings included
            ua, ub = rng.sample(scales, 2)
            a = yield from build([(ua, 1)], ctx.si_prefix() if rng.random() < 0.3 else None)
            b = yield from build([(ub, 1)], ctx.si_prefix() if rng.random() < 0.3 else None)
            if a is None or b is None:
                continue
            tm = ["i:0", "i:0", ftok(0.0), "i:-10", "i:5", ftok(273.15), "i:300", ftok(-459.67), "d:0/1", "i:32"]
            qa = yield from qnew(rng.choice(tm), a)
            qb = yield from qnew(rng.choice(tm), b)
            if qa is None or qb is None:
                continue
            yield from both_orders("q%d" % qa, "q%d" % qb, ["eq", "lt", "le", "gt", "ne"])
            continue
        src, dst = ctx.gen_units(clean_bias=0.6)
        a = yield from build(src, ctx.si_prefix() if rng.random() < 0.4 else None)
        b = yield from build(dst, ctx.si_prefix() if rng.random() < 0.4 else None)
        if a is None or b is None:
            continue
        qa = yield from qnew(ctx.magnitude(), a)
        if qa is None:
            continue
        r = rng.random()
        if r < 0.35:
            # the same physical value, re-expressed
            res = yield "X\tconv\tq%d\tu%d" % (qa, b)
            emitted += 1
            if not res.startswith("ok\tq"):
                continue
            qb = ctx.nq
            ctx.nq += 1
        else:
            qb = yield from qnew(ctx.magnitude(), b)
            if qb is None:
                continue
        x, y = "q%d" % qa, "q%d" % qb
        yield from both_orders(x, y, ["eq", "lt", "le", "gt"] if rng.random() < 0.5 else ["eq", "ne", "ge", "lt", "gt"])
        res = yield "X\teq\t%s\t%s" % (x, x)
        emitted += 1
        k = rng.random()
        if k < 0.45:
            # measurements with uncertainties, in different units
            sa = rng.choice(["i:0", "i:1", ftok(0.1), ftok(2.5), "d:5/10"])
            sb = rng.choice(["i:0", "i:2", ftok(0.05), ftok(10.0)])
            ra = yield "X\tmnew\tq%d\t%s" % (qa, sa)
            rb = yield "X\tmnew\tq%d\t%s" % (qb, sb)
            emitted += 2
            if ra.startswith("ok\tM") and rb.startswith("ok\tM"):
                ma, mb = ctx.nm, ctx.nm + 1
                ctx.nm += 2
                yield from both_orders("M%d" % ma, "M%d" % mb, ["eq", "lt", "ge"])
                yield from both_orders("M%d" % ma, y, ["eq", "le"])
                yield from both_orders(x, "M%d" % mb, ["eq", "gt"])
        elif k < 0.80 and k >= 0.65:
            # levels: a logarithmic unit referenced to the second quantity's unit, the level of the first
            # quantity, compared (== symmetric) with quantities, measurements and another level
            rq = yield from qnew(rng.choice(["i:1", ftok(0.5), "i:20"]), b)
            if rq is None:
                continue
            fam = rng.choice([("i:10", 10, -1), ("i:10", 0, 0), ("i:2", 12, -1)])
            res = yield "X\tlunit\t%s\tp%d:%d\tq%d" % (fam[0], fam[1], fam[2], rq)
            emitted += 1
            if not res.startswith("ok\tlu"):
                continue
            li = int(res.split("\t")[2])
            res = yield "X\tlevel\tn:%d\tq%d" % (li, qa)
            emitted += 1
            if not res.startswith("ok\tL"):
                continue
            la = ctx.nl
            ctx.nl += 1
            yield from both_orders("L%d" % la, x, ["eq", "ne"])
            yield from both_orders("L%d" % la, y, ["eq"])
            res = yield "X\tlnew\t%s\tn:%d" % (rng.choice(["i:0", "i:3", ftok(-2.5)]), li)
            emitted += 1
            if res.startswith("ok\tL"):
                lb = ctx.nl
                ctx.nl += 1
                yield from both_orders("L%d" % la, "L%d" % lb, ["eq", "ne"])
            ra = yield "X\tmnew\tq%d\t%s" % (qb, rng.choice(["i:0", ftok(0.5), "i:2"]))
            emitted += 1
            if ra.startswith("ok\tM"):
                ma = ctx.nm
                ctx.nm += 1
                yield from both_orders("M%d" % ma, "L%d" % la, ["eq", "lt", "ge"])
        elif k < 0.65:
            ra = yield "X\tapprox\tq%d\t%s" % (qa, rng.choice([ftok(1e-7), ftok(0.1), ftok(0.5)]))
            emitted += 1
            if ra.startswith("ok\tM"):
                ma = ctx.nm
                ctx.nm += 1
                yield from both_orders("M%d" % ma, y, ["eq", "lt"])
                yield from both_orders("M%d" % ma, x, ["eq"])
    yield "STATE"
