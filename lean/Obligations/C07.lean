/-
  Per-run obligations for C07: on the evaluated family, running the model's planner with
  assertions disabled (python -O) gives exactly the same outcome as with assertions enabled.
-/
import Props.C07
import Obligations.C04

namespace Measured.Obligations
open Measured Generated

def famConvO : Conv Rat := convOfTables init ratios offsets false

def sameOutcome (ab : UId × UId) : Bool :=
  match convertCoeffs famConv Pfx.identity ab.1 Pfx.identity ab.2,
        convertCoeffs famConvO Pfx.identity ab.1 Pfx.identity ab.2 with
  | .ok x, .ok y => x == y
  | .error e₁, .error e₂ => e₁ == e₂ && (e₁ == .notFound)
  | _, _ => false

theorem family_dashO_same : familyQuick.all sameOutcome = true := by decide +kernel

end Measured.Obligations
