"""Fresh-process baseline for C08: executes a list of declaration actions and ONE final query
directly against the library API (no op lines, no earlier queries) and prints the outcome.

usage: fresh_replay.py <actions.json>      (MEASURED_REPO selects the tree)
"""
import json
import os
import sys
from decimal import Decimal
from functools import reduce
from operator import mul

REPO = os.environ.get("MEASURED_REPO", "/repo")
sys.path.insert(0, os.path.join(REPO, "src"))

import measured  # noqa: E402
import measured.systems  # noqa: E402,F401
import measured.geometry  # noqa: E402,F401
import measured.physics  # noqa: E402,F401
from measured import Dimension, Prefix, Quantity, Unit, conversions  # noqa: E402

sys.path.insert(0, os.path.dirname(os.path.abspath(__file__)))
from impl import exc_name, parse_mag, show_mag  # noqa: E402


def build(expr):
    u = reduce(mul, (Unit.named(n) ** e for n, e in expr["f"]))
    if expr.get("p"):
        u = Prefix._by_name[expr["p"]] * u
    return u


def run(action):
    kind = action[0]
    if kind == "define":
        return Unit.define(Dimension._by_name[action[2]] if action[2] in Dimension._by_name
                           else [d for d in Dimension._fundamental if d.name == action[2]][0],
                           action[1], action[1])
    if kind == "equate":
        return Unit.named(action[1]).equals(parse_mag(action[2]) * build(action[3]))
    if kind == "equatep":
        return (Unit.named(action[1]) ** action[2]).equals(parse_mag(action[3]) * build(action[4]))
    if kind == "query":
        return (parse_mag(action[1]) * build(action[2])).in_unit(build(action[3]))
    if kind == "cmp":
        import operator as o
        f = {"eq": o.eq, "lt": o.lt, "le": o.le, "gt": o.gt, "ge": o.ge, "ne": o.ne}[action[1]]
        return f(parse_mag(action[2]) * build(action[3]), parse_mag(action[4]) * build(action[5]))
    raise ValueError(kind)


def outcome(action):
    try:
        r = run(action)
    except Exception as e:  # noqa: BLE001
        return "ERR\t" + exc_name(e)
    if isinstance(r, bool):
        return "ok\tb\t%s" % ("true" if r else "false")
    if isinstance(r, Quantity):
        return "ok\tq\t" + show_mag(r.magnitude)
    return "ok"


def main():
    actions = json.load(open(sys.argv[1], encoding="utf-8"))
    for a in actions[:-1]:
        if a[0] in ("define", "equate", "equatep"):
            o = outcome(a)
            if o.startswith("ERR"):
                pass
    print(outcome(actions[-1]))


if __name__ == "__main__":
    main()
