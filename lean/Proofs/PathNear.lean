/-
  Proofs/PathNear.lean — the path search on a graph that agrees with the sizes only APPROXIMATELY (the
  shipped definitions: float constants, redundant declarations that differ in the 7th digit).

  `Near lb ub W x y` : `lo^W · y ≤ x ≤ hi^W · y`.  Every stored ratio satisfies
  `Near 1 (m · size b) (size a)` (per run: from the C09 certificate, with lo = 1 − 10⁻⁵, hi = 1 + 10⁻⁵).
  Then whatever non-empty path the search returns satisfies `Near W (∏ scales · size stop) (size start)`
  with `W ≤ max(1, gcd of the exponents of start's dimension) · (number of hops)`: each hop contributes its
  edge error once per unit of the exponent it is raised to, and the exponents multiply to at most that gcd.

  The structural lemmas (frames, `powHop`, `_reduce_dimension`) are those of PathSound.lean restated for
  the approximate invariant.
-/
import Proofs.PathSound
import Proofs.CompareDirect

namespace Measured
open St

variable {σ : UId → Rat} {lb ub : Rat}

/-- `x` is `y` up to `W` factors between `lo` and `hi` -/
def Near (lb ub : Rat) (W : Nat) (x y : Rat) : Prop := lb ^ W * y ≤ x ∧ x ≤ ub ^ W * y

/-- The conversion graph agrees with the size assignment σ up to a factor in [lo, hi] per edge. -/
structure GraphNear (lb ub : Rat) (σ : UId → Rat) (c : Conv Rat) : Prop where
  canon : Canon c.st
  inv   : Inv c.st
  reg   : Reg c.st
  one   : σ c.st.one = 1
  edges : ∀ a b m, (b, m) ∈ c.ratios.row a →
    a < c.st.units.length ∧ b < c.st.units.length ∧ (0 < m.val ∧ Near lb ub 1 (m.val * unitSz σ c.st b) (unitSz σ c.st a))
  nodes : ∀ a b m, (b, m) ∈ c.ratios.row a →
    (c.st.unit! a).pfx = Pfx.identity ∧ (c.st.unit! b).pfx = Pfx.identity

theorem GraphNear.frame {c c' : Conv Rat} (hg : GraphNear lb ub σ c) (hf : CFrame c c') (hc : Canon c'.st) (hi : Inv c'.st)
    (hr : Reg c'.st) : GraphNear lb ub σ c' := by
  refine ⟨hc, hi, hr, by rw [hf.ext.one]; exact hg.one, ?_, ?_⟩
  · intro a b m hm
    rw [hf.ratios] at hm
    obtain ⟨ha, hb, hv⟩ := hg.edges a b m hm
    exact ⟨hf.lt ha, hf.lt hb, by rw [hf.sz ha, hf.sz hb]; exact hv⟩
  · intro a b m hm
    rw [hf.ratios] at hm
    obtain ⟨ha, hb, _⟩ := hg.edges a b m hm
    rw [hf.pfx ha, hf.pfx hb]
    exact hg.nodes a b m hm


theorem powHop_okN {c c' : Conv Rat} {h r : Hop Rat} {e : Int} (hg : GraphNear lb ub σ c)
    (hu : h.unit < c.st.units.length) (hx : CM.exec (powHop h e) c = (.ok r, c')) :
    GraphNear lb ub σ c' ∧ CFrame c c' ∧ r.scale.val = h.scale.val ^ e ∧ r.unit < c'.st.units.length ∧
      r.offset.val = h.offset.val ^ e := by
  unfold powHop at hx
  obtain ⟨sc, c1, h1, hx⟩ := exec_bind_ok hx
  rw [exec_liftE] at h1
  simp only [Prod.mk.injEq] at h1
  obtain ⟨h1, rfl⟩ := h1
  obtain ⟨off, c2, h2, hx⟩ := exec_bind_ok hx
  rw [exec_liftE] at h2
  simp only [Prod.mk.injEq] at h2
  obtain ⟨h2, rfl⟩ := h2
  obtain ⟨u, c3, h3, hx⟩ := exec_bind_ok hx
  rw [exec_liftSt] at h3
  simp only [Prod.mk.injEq, Except.ok.injEq] at h3
  obtain ⟨rfl, rfl⟩ := h3
  rw [exec_pure] at hx
  simp only [Prod.mk.injEq, Except.ok.injEq] at hx
  obtain ⟨rfl, rfl⟩ := hx
  have hf : CFrame c { c with st := (c.st.powUnit h.unit e).1 } := frame_setSt c (powUnit_ext _ _ _)
  exact ⟨hg.frame hf (powUnit_canon hg.canon hu e) (powUnit_inv hg.inv hu e) (powUnit_reg hg.reg _ e), hf, val_powInt h1,
    powUnit_lt _ _ _, val_powInt h2⟩

theorem mapM_powHop_okN (e : Int) : ∀ (hs : List (Hop Rat)) (c c' : Conv Rat) (r : List (Hop Rat)),
    GraphNear lb ub σ c → (∀ h ∈ hs, h.unit < c.st.units.length) →
    CM.exec (hs.mapM (fun h => powHop h e)) c = (.ok r, c') →
    GraphNear lb ub σ c' ∧ CFrame c c' ∧ (∀ h ∈ r, h.unit < c'.st.units.length) ∧
      pathScale r = pathScale hs ^ e ∧ r.length = hs.length ∧
      (e ≠ 0 → (∀ h ∈ hs, h.offset.val = 0) → ∀ h ∈ r, h.offset.val = 0) := by
  intro hs
  induction hs with
  | nil =>
    intro c c' r hg _ hx
    simp only [List.mapM_nil, exec_pure, Prod.mk.injEq, Except.ok.injEq] at hx
    obtain ⟨rfl, rfl⟩ := hx
    exact ⟨hg, CFrame.refl _, by simp, by simp, rfl, by simp⟩
  | cons h t ih =>
    intro c c' r hg hv hx
    simp only [List.mapM_cons] at hx
    obtain ⟨h', c1, h1, hx⟩ := exec_bind_ok hx
    obtain ⟨t', c2, h2, hx⟩ := exec_bind_ok hx
    rw [exec_pure] at hx
    simp only [Prod.mk.injEq, Except.ok.injEq] at hx
    obtain ⟨rfl, rfl⟩ := hx
    obtain ⟨g1, f1, s1, u1, o1⟩ := powHop_okN hg (hv h List.mem_cons_self) h1
    obtain ⟨g2, f2, u2, s2, l2, o2⟩ := ih c1 c2 t' g1 (fun x hx => f1.lt (hv x (List.mem_cons_of_mem _ hx))) h2
    refine ⟨g2, f1.trans f2, ?_, ?_, by simp [l2], ?_⟩
    · intro x hx
      rcases List.mem_cons.1 hx with rfl | hx
      · exact f2.lt u1
      · exact u2 x hx
    · simp only [pathScale_cons, s1, s2, mul_zpow]
    · intro he hz x hx
      rcases List.mem_cons.1 hx with rfl | hx
      · rw [o1, hz h List.mem_cons_self, zero_zpow e he]
      · exact o2 he (fun y hy => hz y (List.mem_cons_of_mem _ hy)) x hx


theorem rootStepN {c : Conv Rat} (hg : GraphNear lb ub σ c) {a : UId} (ha : a < c.st.units.length) (n : Int) :
    GraphNear lb ub σ { c with st := (c.st.rootUnit a n).1 } ∧ CFrame c { c with st := (c.st.rootUnit a n).1 } := by
  have hf : CFrame c { c with st := (c.st.rootUnit a n).1 } := frame_setSt c (rootUnit_ext _ _ _)
  exact ⟨hg.frame hf (rootUnit_canon hg.canon ha n) (rootUnit_inv hg.inv ha n) (rootUnit_reg hg.reg a n), hf⟩


theorem reduceDimension_okN {c c' : Conv Rat} {start stop a b : UId} {e : Int} (hg : GraphNear lb ub σ c)
    (hs : start < c.st.units.length) (ht : stop < c.st.units.length)
    (hx : CM.exec (reduceDimension start stop) c = (.ok (e, a, b), c')) :
    GraphNear lb ub σ c' ∧ CFrame c c' ∧ a < c'.st.units.length ∧ b < c'.st.units.length ∧
      unitSz σ c'.st a ^ e = unitSz σ c.st start ∧ unitSz σ c'.st b ^ e = unitSz σ c.st stop ∧ e ≠ 0 ∧
      ((c'.st.unit! a).pfx = Pfx.identity → (c.st.unit! start).pfx = Pfx.identity) ∧
      ((c'.st.unit! b).pfx = Pfx.identity → (c.st.unit! stop).pfx = Pfx.identity) := by
  unfold reduceDimension at hx
  obtain ⟨s0, c0, h0, hx⟩ := exec_bind_ok hx
  rw [exec_getSt] at h0
  simp only [Prod.mk.injEq, Except.ok.injEq] at h0
  obtain ⟨rfl, rfl⟩ := h0
  obtain ⟨u, c1, h1, hx⟩ := exec_bind_ok hx
  have := exec_cassert_ok h1
  subst this
  by_cases hnum : (c1.st.dimOfUnit start).isNumber = true
  · simp only [hnum, ↓reduceIte] at hx
    rw [exec_pure] at hx
    simp only [Prod.mk.injEq, Except.ok.injEq] at hx
    obtain ⟨⟨rfl, rfl, rfl⟩, rfl⟩ := hx
    exact ⟨hg, CFrame.refl _, hs, ht, by simp, by simp, by decide, id, id⟩
  · have hnum' : (c1.st.dimOfUnit start).isNumber = false := by simpa using hnum
    simp only [hnum', Bool.false_eq_true, ↓reduceIte] at hx
    have hgne := gcdAll_ne_zero hnum'
    rw [exec_tryCatch] at hx
    -- the two roots
    rw [exec_bind, exec_bind, exec_liftStE] at hx
    obtain ⟨g1, f1⟩ := rootStepN hg hs ((c1.st.dimOfUnit start).gcdAll : Int)
    cases hr1 : (c1.st.rootUnit start ((c1.st.dimOfUnit start).gcdAll : Int)).2 with
    | error e1 =>
      simp only [hr1] at hx
      by_cases hfr : (e1 == Exc.fractional) = true
      · simp only [hfr, ↓reduceIte, exec_pure, Prod.mk.injEq, Except.ok.injEq] at hx
        obtain ⟨⟨rfl, rfl, rfl⟩, rfl⟩ := hx
        exact ⟨g1, f1, f1.lt hs, f1.lt ht, by simp [f1.sz hs], by simp [f1.sz ht], by decide,
          by rw [f1.pfx hs]; exact id, by rw [f1.pfx ht]; exact id⟩
      · simp only [hfr, Bool.false_eq_true, ↓reduceIte, exec_throw] at hx
        simp at hx
    | ok a1 =>
      simp only [hr1] at hx
      rw [exec_bind, exec_liftStE] at hx
      have hs1 : stop < ({ c1 with st := (c1.st.rootUnit start ((c1.st.dimOfUnit start).gcdAll : Int)).1 } : Conv Rat).st.units.length :=
        f1.lt ht
      obtain ⟨g2, f2⟩ := rootStepN g1 hs1 ((c1.st.dimOfUnit start).gcdAll : Int)
      have ha1 := rootUnit_lt hg.inv.1 start _ hr1
      have hz1 := rootUnit_size hg.one hg.canon hs hgne hr1
      have hp1 := rootUnit_pfx_identity hg.canon hs hgne hr1
      cases hr2 : (({ c1 with st := (c1.st.rootUnit start ((c1.st.dimOfUnit start).gcdAll : Int)).1 } : Conv Rat).st.rootUnit stop
          ((c1.st.dimOfUnit start).gcdAll : Int)).2 with
      | error e2 =>
        simp only [hr2] at hx
        by_cases hfr : (e2 == Exc.fractional) = true
        · simp only [hfr, ↓reduceIte, exec_pure, Prod.mk.injEq, Except.ok.injEq] at hx
          obtain ⟨⟨rfl, rfl, rfl⟩, rfl⟩ := hx
          have f12 := f1.trans f2
          exact ⟨g2, f12, f12.lt hs, f12.lt ht, by simp [f12.sz hs], by simp [f12.sz ht], by decide,
            by rw [f12.pfx hs]; exact id, by rw [f12.pfx ht]; exact id⟩
        · simp only [hfr, Bool.false_eq_true, ↓reduceIte, exec_throw] at hx
          simp at hx
      | ok b1 =>
        simp only [hr2, exec_pure, Prod.mk.injEq, Except.ok.injEq] at hx
        obtain ⟨⟨rfl, rfl, rfl⟩, rfl⟩ := hx
        have hb1 := rootUnit_lt g1.inv.1 stop _ hr2
        have hz2 := rootUnit_size g1.one g1.canon hs1 hgne hr2
        have hp2 := rootUnit_pfx_identity g1.canon hs1 hgne hr2
        refine ⟨g2, f1.trans f2, f2.lt ha1, hb1, ?_, ?_, hgne, ?_, ?_⟩
        · rw [f2.sz ha1]; exact hz1
        · rw [hz2]; exact f1.sz ht
        · rw [f2.pfx ha1]; exact hp1
        · intro h; have := hp2 h; rw [f1.pfx ht] at this; exact this


theorem unprefixStepN {c : Conv Rat} (hg : GraphNear lb ub σ c) {a : UId} (ha : a < c.st.units.length) :
    GraphNear lb ub σ { c with st := (c.st.unprefixedUnit a).1 } ∧ CFrame c { c with st := (c.st.unprefixedUnit a).1 } := by
  have hf : CFrame c { c with st := (c.st.unprefixedUnit a).1 } := frame_setSt c (unprefixedUnit_ext _ _)
  exact ⟨hg.frame hf (unprefixedUnit_canon hg.canon ha) (unprefixedUnit_inv hg.inv ha) (unprefixedUnit_reg hg.reg a), hf⟩


/-- When the path search connects `start` and `stop` directly, `_plan_conversion` returns that path
    followed by the division by the target's prefix. -/
theorem planConversion_directN {c c' : Conv Rat} {start stop : UId} {plan : Plan Rat}
    (hg : GraphNear lb ub σ c) (hs : start < c.st.units.length) (ht : stop < c.st.units.length)
    (hx : CM.exec (planConversion start stop) c = (.ok plan, c')) :
    GraphNear lb ub σ { c with st := (c.st.unprefixedUnit stop).1 } ∧
    ∃ (direct : List (Hop Rat)) (c2 : Conv Rat),
      CM.exec (findPath start stop) { c with st := (c.st.unprefixedUnit stop).1 } = (.ok direct, c2) ∧
      (direct ≠ [] → ∃ head : Mag Rat,
        head.val = 1 / Pfx.val (c.st.unit! stop).pfx ∧
        plan = [ { ratio := .int 1, path := direct, exp := 1 },
                 { ratio := head, path := [{ scale := .int 1, offset := .int 0, unit := c.st.one }], exp := 1 } ] ∧
        c' = c2) := by
  unfold planConversion at hx
  obtain ⟨s0, c0, h0, hx⟩ := exec_bind_ok hx
  rw [exec_getSt] at h0
  simp only [Prod.mk.injEq, Except.ok.injEq] at h0
  obtain ⟨rfl, rfl⟩ := h0
  obtain ⟨unp, c1, h1, hx⟩ := exec_bind_ok hx
  unfold quantifyUnit at h1
  rw [exec_bind, exec_getSt] at h1
  simp only at h1
  rw [exec_bind, exec_liftSt] at h1
  simp only [exec_pure, Prod.mk.injEq, Except.ok.injEq] at h1
  obtain ⟨rfl, rfl⟩ := h1
  obtain ⟨g1, f1⟩ := unprefixStepN hg ht
  refine ⟨g1, ?_⟩
  obtain ⟨head, c2, h2, hx⟩ := exec_bind_ok hx
  rw [exec_liftE] at h2
  simp only [Prod.mk.injEq] at h2
  obtain ⟨h2, rfl⟩ := h2
  obtain ⟨s1, c3, h3, hx⟩ := exec_bind_ok hx
  rw [exec_getSt] at h3
  simp only [Prod.mk.injEq, Except.ok.injEq] at h3
  obtain ⟨rfl, rfl⟩ := h3
  obtain ⟨direct, c4, h4, hx⟩ := exec_bind_ok hx
  refine ⟨direct, c4, h4, ?_⟩
  intro hne
  have hne' : direct.isEmpty = false := by
    cases direct with
    | nil => exact absurd rfl hne
    | cons _ _ => rfl
  simp only [hne', Bool.not_false, ↓reduceIte] at hx
  obtain ⟨tail, c5, h5, hx⟩ := exec_bind_ok hx
  rw [exec_pure] at hx
  simp only [Prod.mk.injEq, Except.ok.injEq] at hx
  obtain ⟨rfl, rfl⟩ := hx
  unfold inlinePaths at h5
  simp only [List.mapM_cons, List.mapM_nil] at h5
  rw [exec_bind, exec_bind, exec_findPath_self] at h5
  simp only [List.isEmpty_cons, Bool.false_eq_true, ↓reduceIte, exec_pure, exec_bind, Prod.mk.injEq,
    Except.ok.injEq] at h5
  obtain ⟨rfl, hcc⟩ := h5
  obtain ⟨hv, _⟩ := recip_val h2
  refine ⟨head, ?_, rfl, hcc.symm⟩
  rw [hv, Pfx.value_val]



/-! ### arithmetic of `Near` -/

/-- the bounds: `0 < lb ≤ 1 ≤ ub` -/
structure Bnd (lb ub : Rat) : Prop where
  pos : 0 < lb
  le1 : lb ≤ 1
  ge1 : 1 ≤ ub

theorem near_refl (x : Rat) : Near lb ub 0 x x := by simp [Near]

theorem near_mono (hb : Bnd lb ub) {W W' : Nat} (h : W ≤ W') {x y : Rat} (hy : 0 ≤ y) (hn : Near lb ub W x y) :
    Near lb ub W' x y := by
  obtain ⟨h1, h2⟩ := hn
  constructor
  · have : lb ^ W' ≤ lb ^ W := pow_le_pow_of_le_one (le_of_lt hb.pos) hb.le1 h
    exact le_trans (mul_le_mul_of_nonneg_right this hy) h1
  · have : ub ^ W ≤ ub ^ W' := pow_le_pow_right₀ hb.ge1 h
    exact le_trans h2 (mul_le_mul_of_nonneg_right this hy)

theorem near_trans (hb : Bnd lb ub) {W1 W2 : Nat} {x y z : Rat} (h1 : Near lb ub W1 x y) (h2 : Near lb ub W2 y z) :
    Near lb ub (W1 + W2) x z := by
  obtain ⟨a1, a2⟩ := h1
  obtain ⟨b1, b2⟩ := h2
  have hl1 : 0 ≤ lb ^ W1 := pow_nonneg (le_of_lt hb.pos) _
  have hu1 : 0 ≤ ub ^ W1 := pow_nonneg (le_trans zero_le_one hb.ge1) _
  constructor
  · calc lb ^ (W1 + W2) * z = lb ^ W1 * (lb ^ W2 * z) := by rw [pow_add]; ring
      _ ≤ lb ^ W1 * y := mul_le_mul_of_nonneg_left b1 hl1
      _ ≤ x := a1
  · calc x ≤ ub ^ W1 * y := a2
      _ ≤ ub ^ W1 * (ub ^ W2 * z) := mul_le_mul_of_nonneg_left b2 hu1
      _ = ub ^ (W1 + W2) * z := by rw [pow_add]; ring

theorem near_scale {W : Nat} {x y : Rat} (k : Rat) (hk : 0 ≤ k) (h : Near lb ub W x y) :
    Near lb ub W (k * x) (k * y) := by
  obtain ⟨h1, h2⟩ := h
  constructor
  · calc lb ^ W * (k * y) = k * (lb ^ W * y) := by ring
      _ ≤ k * x := mul_le_mul_of_nonneg_left h1 hk
  · calc k * x ≤ k * (ub ^ W * y) := mul_le_mul_of_nonneg_left h2 hk
      _ = ub ^ W * (k * y) := by ring

theorem near_pow (hb : Bnd lb ub) {W : Nat} {x y : Rat} (hy : 0 ≤ y) (h : Near lb ub W x y) (n : Nat) :
    Near lb ub (W * n) (x ^ n) (y ^ n) := by
  obtain ⟨h1, h2⟩ := h
  have hl : 0 ≤ lb ^ W * y := mul_nonneg (pow_nonneg (le_of_lt hb.pos) _) hy
  have hx : 0 ≤ x := le_trans hl h1
  constructor
  · calc lb ^ (W * n) * y ^ n = (lb ^ W * y) ^ n := by rw [mul_pow, pow_mul]
      _ ≤ x ^ n := pow_le_pow_left₀ hl h1 n
  · calc x ^ n ≤ (ub ^ W * y) ^ n := pow_le_pow_left₀ hx h2 n
      _ = ub ^ (W * n) * y ^ n := by rw [mul_pow, pow_mul]

/-! ### the gcd of the exponents after taking the root -/

theorem gcd_foldl_dvd (l : List Int) (g0 : Nat) :
    (l.foldl (fun g e => Nat.gcd g e.natAbs) g0) ∣ g0 ∧ ∀ e ∈ l, (l.foldl (fun g e => Nat.gcd g e.natAbs) g0) ∣ e.natAbs := by
  induction l generalizing g0 with
  | nil => exact ⟨dvd_refl _, by simp⟩
  | cons x rest ih =>
    simp only [List.foldl_cons]
    obtain ⟨h1, h2⟩ := ih (Nat.gcd g0 x.natAbs)
    refine ⟨dvd_trans h1 (Nat.gcd_dvd_left _ _), ?_⟩
    intro e he
    rcases List.mem_cons.1 he with rfl | he
    · exact dvd_trans h1 (Nat.gcd_dvd_right _ _)
    · exact h2 e he

theorem gcd_foldl_scale (k : Nat) (hk : 0 < k) (l : List Int) (hl : ∀ e ∈ l, (k : Int) ∣ e) (a : Nat) :
    (l.map (fun s => Int.fdiv s k)).foldl (fun g e => Nat.gcd g e.natAbs) a * k =
      l.foldl (fun g e => Nat.gcd g e.natAbs) (a * k) := by
  induction l generalizing a with
  | nil => rfl
  | cons x rest ih =>
    simp only [List.map_cons, List.foldl_cons]
    rw [ih (fun e he => hl e (List.mem_cons_of_mem _ he))]
    congr 1
    have hx := hl x List.mem_cons_self
    have habs : (Int.fdiv x k).natAbs * k = x.natAbs := by
      rw [Int.fdiv_eq_ediv_of_dvd hx]
      obtain ⟨q, rfl⟩ := hx
      have hk0 : (k : Int) ≠ 0 := by exact_mod_cast (Nat.pos_iff_ne_zero.1 hk)
      rw [Int.mul_ediv_cancel_left _ hk0, Int.natAbs_mul, Int.natAbs_natCast, Nat.mul_comm]
    rw [← habs, Nat.gcd_mul_right]

theorem gcdAll_root {d : Dim} (hg : d.gcdAll ≠ 0) :
    Dim.gcdAll (d.map (fun s => Int.fdiv s (d.gcdAll : Int))) = 1 := by
  have hpos : 0 < d.gcdAll := Nat.pos_of_ne_zero hg
  have hdvd : ∀ e ∈ d, ((d.gcdAll : Nat) : Int) ∣ e := by
    intro e he
    have := (gcd_foldl_dvd d 0).2 e he
    exact Int.natCast_dvd.2 this
  have h := gcd_foldl_scale d.gcdAll hpos d hdvd 0
  simp only [Nat.zero_mul] at h
  have h2 : Dim.gcdAll (d.map (fun s => Int.fdiv s (d.gcdAll : Int))) * d.gcdAll = 1 * d.gcdAll := by
    rw [Nat.one_mul]; exact h
  exact Nat.eq_of_mul_eq_mul_right hpos h2

/-! ### how far the exponents can grow -/

/-- max(1, gcd of the exponents of the unit's dimension) -/
def Gd (s : St) (u : UId) : Nat := max 1 (s.dimOfUnit u).gcdAll

theorem Gd_pos (s : St) (u : UId) : 1 ≤ Gd s u := Nat.le_max_left _ _

theorem Gd_ext {s s' : St} (h : Ext s s') {u : UId} (hu : u < s.units.length) : Gd s' u = Gd s u := by
  unfold Gd; rw [h.dimOfUnit hu]

theorem Gd_of_dim {s : St} {u v : UId} (h : s.dimOfUnit u = s.dimOfUnit v) : Gd s u = Gd s v := by
  unfold Gd; rw [h]

/-- `_reduce_dimension` either keeps the units (exponent 1) or takes the gcd-th roots. -/
theorem reduceDimension_cases {c c' : Conv Rat} {start stop a b : UId} {e : Int}
    (hx : CM.exec (reduceDimension start stop) c = (.ok (e, a, b), c')) :
    (e = 1 ∧ a = start ∧ b = stop) ∨
    (e = ((c.st.dimOfUnit start).gcdAll : Int) ∧ (c.st.dimOfUnit start).gcdAll ≠ 0 ∧
      (c.st.rootUnit start ((c.st.dimOfUnit start).gcdAll : Int)).2 = .ok a ∧
      Ext (c.st.rootUnit start ((c.st.dimOfUnit start).gcdAll : Int)).1 c'.st) := by
  unfold reduceDimension at hx
  obtain ⟨s0, c0, h0, hx⟩ := exec_bind_ok hx
  rw [exec_getSt] at h0
  simp only [Prod.mk.injEq, Except.ok.injEq] at h0
  obtain ⟨rfl, rfl⟩ := h0
  obtain ⟨u, c1, h1, hx⟩ := exec_bind_ok hx
  have := exec_cassert_ok h1
  subst this
  by_cases hnum : (c1.st.dimOfUnit start).isNumber = true
  · simp only [hnum, ↓reduceIte] at hx
    rw [exec_pure] at hx
    simp only [Prod.mk.injEq, Except.ok.injEq] at hx
    obtain ⟨⟨rfl, rfl, rfl⟩, _⟩ := hx
    exact Or.inl ⟨rfl, rfl, rfl⟩
  · have hnum' : (c1.st.dimOfUnit start).isNumber = false := by simpa using hnum
    simp only [hnum', Bool.false_eq_true, ↓reduceIte] at hx
    have hgne := gcdAll_ne_zero hnum'
    have hgne' : (c1.st.dimOfUnit start).gcdAll ≠ 0 := by
      intro h; apply hgne; rw [h]; rfl
    rw [exec_tryCatch] at hx
    rw [exec_bind, exec_bind, exec_liftStE] at hx
    cases hr1 : (c1.st.rootUnit start ((c1.st.dimOfUnit start).gcdAll : Int)).2 with
    | error e1 =>
      simp only [hr1] at hx
      by_cases hfr : (e1 == Exc.fractional) = true
      · simp only [hfr, ↓reduceIte, exec_pure, Prod.mk.injEq, Except.ok.injEq] at hx
        obtain ⟨⟨rfl, rfl, rfl⟩, _⟩ := hx
        exact Or.inl ⟨rfl, rfl, rfl⟩
      · simp only [hfr, Bool.false_eq_true, ↓reduceIte, exec_throw] at hx
        simp at hx
    | ok a1 =>
      simp only [hr1] at hx
      rw [exec_bind, exec_liftStE] at hx
      cases hr2 : (({ c1 with st := (c1.st.rootUnit start ((c1.st.dimOfUnit start).gcdAll : Int)).1 } : Conv Rat).st.rootUnit stop
          ((c1.st.dimOfUnit start).gcdAll : Int)).2 with
      | error e2 =>
        simp only [hr2] at hx
        by_cases hfr : (e2 == Exc.fractional) = true
        · simp only [hfr, ↓reduceIte, exec_pure, Prod.mk.injEq, Except.ok.injEq] at hx
          obtain ⟨⟨rfl, rfl, rfl⟩, _⟩ := hx
          exact Or.inl ⟨rfl, rfl, rfl⟩
        · simp only [hfr, Bool.false_eq_true, ↓reduceIte, exec_throw] at hx
          simp at hx
      | ok b1 =>
        simp only [hr2, exec_pure, Prod.mk.injEq, Except.ok.injEq] at hx
        obtain ⟨⟨rfl, rfl, rfl⟩, rfl⟩ := hx
        exact Or.inr ⟨rfl, hgne', rfl, rootUnit_ext _ _ _⟩

/-- the exponent of this level times what the next levels can still contribute is at most what this
    level could contribute -/
theorem reduceDimension_G {c c' : Conv Rat} {start stop a b : UId} {e : Int} (hi : Inv c.st)
    (hs : start < c.st.units.length) (hext : Ext c.st c'.st)
    (hx : CM.exec (reduceDimension start stop) c = (.ok (e, a, b), c')) (ha' : a < c'.st.units.length) :
    e.toNat * Gd c'.st a ≤ Gd c.st start := by
  rcases reduceDimension_cases hx with ⟨rfl, rfl, _⟩ | ⟨rfl, hg, hr, hext2⟩
  · rw [Gd_ext hext hs]; simp
  · have hgne : ((c.st.dimOfUnit start).gcdAll : Int) ≠ 0 := by exact_mod_cast hg
    have hd := rootUnit_dim hi hs hgne hr
    -- the dimension of the root
    have hroot : (c.st.rootUnit start ((c.st.dimOfUnit start).gcdAll : Int)).1.dimOfUnit a =
        (c.st.dimOfUnit start).map (fun s => Int.fdiv s ((c.st.dimOfUnit start).gcdAll : Int)) := by
      unfold Dim.root at hd
      have h0 : (((c.st.dimOfUnit start).gcdAll : Int) == 0) = false := by simpa using hgne
      simp only [h0, Bool.false_eq_true, ↓reduceIte] at hd
      split at hd
      · cases hd
      · injection hd with hd; exact hd.symm
    have ha1 : a < (c.st.rootUnit start ((c.st.dimOfUnit start).gcdAll : Int)).1.units.length :=
      rootUnit_lt hi.1 start _ hr
    have hG1 : Gd c'.st a = 1 := by
      unfold Gd
      rw [hext2.dimOfUnit ha1, hroot, gcdAll_root hg]
      rfl
    rw [hG1, Nat.mul_one, Int.toNat_natCast]
    unfold Gd
    exact Nat.le_max_right _ _

/-! ### the search, approximately -/

theorem GraphWF.frameN {c c' : Conv Rat} (hg : GraphNear lb ub σ c) (hw : GraphWF c) (hf : CFrame c c') : GraphWF c' := by
  refine ⟨?_, ?_⟩
  · intro a b m hm
    rw [hf.ratios] at hm
    obtain ⟨ha, hb, _⟩ := hg.edges a b m hm
    rw [hf.ext.dimOfUnit ha, hf.ext.dimOfUnit hb]
    exact hw.dims a b m hm
  · intro a b m hm
    rw [hf.ratios] at hm ⊢
    exact hw.closed a b m hm

theorem pathScale_pos {p : List (Hop Rat)} (h : ∀ x ∈ p, 0 < x.scale.val) : 0 < pathScale p := by
  induction p with
  | nil => simp
  | cons a t ih =>
    rw [pathScale_cons]
    exact mul_pos (h a List.mem_cons_self) (ih (fun x hx => h x (List.mem_cons_of_mem _ hx)))

/-- every declared offset sits on a unit (of the reference state `s₀`) whose dimension is outside `Z` -/
def OffRef (s₀ : St) (Z : Dim → Prop) (offs : Table (Mag Rat)) : Prop :=
  ∀ a b m, offs.get? a b = some m → a < s₀.units.length ∧ ¬ Z (s₀.dimOfUnit a)

theorem offref_none {s₀ s : St} {Z : Dim → Prop} {offs : Table (Mag Rat)} (h : OffRef s₀ Z offs) (he : Ext s₀ s)
    {a : UId} (hz : Z (s.dimOfUnit a)) (b : UId) : offs.get? a b = none := by
  cases hg : offs.get? a b with
  | none => rfl
  | some m =>
    obtain ⟨ha, hn⟩ := h a b m hg
    rw [he.dimOfUnit ha] at hz
    exact absurd hz hn

/-- `Z` is closed under taking roots of a dimension -/
def RootClosed (Z : Dim → Prop) : Prop := ∀ d g d', Z d → Dim.root d g = .ok d' → Z d'

def PathSpecN (s₀ : St) (Z : Dim → Prop) (lb ub : Rat) (σ : UId → Rat) (c : Conv Rat) (start stop : UId) (p : List (Hop Rat)) (c' : Conv Rat) : Prop :=
  GraphNear lb ub σ c' ∧ GraphWF c' ∧ CFrame c c' ∧ (∀ h ∈ p, h.unit < c'.st.units.length) ∧
    (p ≠ [] → 0 < pathScale p ∧ ∃ W : Nat, W ≤ Gd c.st start * p.length ∧
      Near lb ub W (pathScale p * unitSz σ c.st stop) (unitSz σ c.st start)) ∧
    (OffRef s₀ Z c.offsets → Z (c.st.dimOfUnit start) → ∀ h ∈ p, h.offset.val = 0) ∧
    (p ≠ [] → start = stop ∨ ((c.st.unit! start).pfx = Pfx.identity ∧ (c.st.unit! stop).pfx = Pfx.identity))

def RecurSpecN (s₀ : St) (Z : Dim → Prop) (lb ub : Rat) (σ : UId → Rat)
    (recur : UId → UId → List UId → CM Rat (List (Hop Rat) × List UId)) : Prop :=
  ∀ (a b : UId) (v : List UId) (c c' : Conv Rat) (p : List (Hop Rat)) (v' : List UId),
    GraphNear lb ub σ c → GraphWF c → Ext s₀ c.st → a < c.st.units.length → b < c.st.units.length →
    CM.exec (recur a b v) c = (.ok (p, v'), c') → PathSpecN s₀ Z lb ub σ c a b p c'

theorem pathLoop_near {s₀ : St} {Z : Dim → Prop} (hb : Bnd lb ub) (hσp : ∀ k, 0 < σ k)
    {recur : UId → UId → List UId → CM Rat (List (Hop Rat) × List UId)}
    (hrec : RecurSpecN s₀ Z lb ub σ recur) (start' stop' : UId) (n : Nat) (hn : 0 < n) :
    ∀ (items : List (UId × Mag Rat)) (best : List (Hop Rat)) (visited : List UId) (c c' : Conv Rat)
      (p : List (Hop Rat)) (v' : List UId),
      GraphNear lb ub σ c → GraphWF c → Ext s₀ c.st → start' < c.st.units.length → stop' < c.st.units.length →
      (∀ it ∈ items, it ∈ c.ratios.row start') →
      (∀ h ∈ best, h.unit < c.st.units.length) →
      (best ≠ [] → 0 < pathScale best ∧ ∃ W : Nat, W ≤ n * Gd c.st start' * best.length ∧
        Near lb ub W (pathScale best * unitSz σ c.st stop' ^ n) (unitSz σ c.st start' ^ n)) →
      (OffRef s₀ Z c.offsets → Z (c.st.dimOfUnit start') → ∀ h ∈ best, h.offset.val = 0) →
      (best ≠ [] → (c.st.unit! start').pfx = Pfx.identity ∧ (c.st.unit! stop').pfx = Pfx.identity) →
      CM.exec (pathLoop recur start' stop' (n : Int) items best visited) c = (.ok (p, v'), c') →
      GraphNear lb ub σ c' ∧ GraphWF c' ∧ CFrame c c' ∧ (∀ h ∈ p, h.unit < c'.st.units.length) ∧
        (p ≠ [] → 0 < pathScale p ∧ ∃ W : Nat, W ≤ n * Gd c.st start' * p.length ∧
          Near lb ub W (pathScale p * unitSz σ c.st stop' ^ n) (unitSz σ c.st start' ^ n)) ∧
        (OffRef s₀ Z c.offsets → Z (c.st.dimOfUnit start') → ∀ h ∈ p, h.offset.val = 0) ∧
        (p ≠ [] → (c.st.unit! start').pfx = Pfx.identity ∧ (c.st.unit! stop').pfx = Pfx.identity) := by
  intro items
  induction items with
  | nil =>
    intro best visited c c' p v' hg hw _ _ _ _ hbu hbv hbo hbp hx
    unfold pathLoop at hx
    rw [exec_pure] at hx
    simp only [Prod.mk.injEq, Except.ok.injEq] at hx
    obtain ⟨⟨rfl, rfl⟩, rfl⟩ := hx
    exact ⟨hg, hw, CFrame.refl _, hbu, hbv, hbo, hbp⟩
  | cons it rest ih =>
    intro best visited c c' p v' hg hw he0 hs ht hit hbu hbv hbo hbp hx
    obtain ⟨mid, scale⟩ := it
    unfold pathLoop at hx
    obtain ⟨c0, c0', h0, hx⟩ := exec_bind_ok hx
    rw [exec_getThe'] at h0
    simp only [Prod.mk.injEq, Except.ok.injEq] at h0
    obtain ⟨rfl, rfl⟩ := h0
    obtain ⟨hms, hmm, hspos, hmv⟩ := hg.edges start' mid scale (hit _ List.mem_cons_self)
    have hdm := hw.dims start' mid scale (hit _ List.mem_cons_self)
    obtain ⟨hns, hnm⟩ := hg.nodes start' mid scale (hit _ List.mem_cons_self)
    have hrest : ∀ it ∈ rest, it ∈ c.ratios.row start' := fun x hx => hit x (List.mem_cons_of_mem _ hx)
    have hσ0 : ∀ k, σ k ≠ 0 := fun k => ne_of_gt (hσp k)
    have hstart0 : 0 ≤ unitSz σ c.st start' := le_of_lt (unitSz_pos hσp hg.canon hs)
    by_cases hms' : (mid == stop') = true
    · have hmid : mid = stop' := by simpa using hms'
      simp only [hms', ↓reduceIte] at hx
      obtain ⟨h, c1, h1, hx⟩ := exec_bind_ok hx
      rw [exec_pure] at hx
      simp only [Prod.mk.injEq, Except.ok.injEq] at hx
      obtain ⟨⟨rfl, rfl⟩, rfl⟩ := hx
      obtain ⟨g1, f1, s1, u1, o1⟩ := powHop_okN hg (h := { scale := scale, offset := ((c.offsets.get? start' mid).getD (.int 0)), unit := stop' }) ht h1
      refine ⟨g1, hw.frameN hg f1, f1, ?_, ?_, ?_, fun _ => ⟨hns, hmid ▸ hnm⟩⟩
      · intro x hx; simp only [List.mem_singleton] at hx; subst hx; exact u1
      · intro _
        simp only [pathScale_cons, pathScale_nil, mul_one, s1, zpow_natCast]
        refine ⟨pow_pos hspos n, n, ?_, ?_⟩
        · simp only [List.length_singleton, Nat.mul_one]
          exact Nat.le_mul_of_pos_right _ (Gd_pos _ _)
        · have := near_pow hb hstart0 (by rw [hmid] at hmv; exact hmv) n
          simp only [Nat.one_mul] at this
          rw [mul_pow] at this
          exact this
      · intro hoff hzd x hx
        simp only [List.mem_singleton] at hx; subst hx
        rw [o1]
        simp only [offref_none hoff he0 hzd, Option.getD_none]
        show ((0 : Int) : Rat) ^ (n : Int) = 0
        rw [Int.cast_zero, zero_zpow _ (by exact_mod_cast (Nat.pos_iff_ne_zero.1 hn))]
    · simp only [hms', Bool.false_eq_true, ↓reduceIte] at hx
      obtain ⟨⟨path, vis1⟩, c1, h1, hx⟩ := exec_bind_ok hx
      obtain ⟨g1, w1, f1, pu1, ps1, po1, pp1⟩ := hrec mid stop' visited c c1 path vis1 hg hw he0 hmm ht h1
      have hd1 : c1.st.dimOfUnit start' = c.st.dimOfUnit start' := f1.ext.dimOfUnit hs
      simp only at hx
      have hrest1 : ∀ it ∈ rest, it ∈ c1.ratios.row start' := by rw [f1.ratios]; exact hrest
      have hGd1 : Gd c1.st start' = Gd c.st start' := Gd_ext f1.ext hs
      by_cases hpe : path.isEmpty = true
      · simp only [hpe, ↓reduceIte] at hx
        obtain ⟨g2, w2, f2, pu2, ps2, po2, pp2⟩ := ih best vis1 c1 c' p v' g1 w1 (he0.trans f1.ext) (f1.lt hs) (f1.lt ht) hrest1
          (fun h hh => f1.lt (hbu h hh)) (by rw [f1.sz hs, f1.sz ht, hGd1]; exact hbv)
          (by rw [f1.offsets, hd1]; exact hbo)
          (by rw [f1.pfx hs, f1.pfx ht]; exact hbp) hx
        exact ⟨g2, w2, f1.trans f2, pu2, by rw [f1.sz hs, f1.sz ht, hGd1] at ps2; exact ps2,
          by rw [f1.offsets, hd1] at po2; exact po2, by rw [f1.pfx hs, f1.pfx ht] at pp2; exact pp2⟩
      · simp only [hpe, Bool.false_eq_true, ↓reduceIte] at hx
        have hpne : path ≠ [] := by intro h; rw [h] at hpe; simp at hpe
        obtain ⟨path2, c2, h2, hx⟩ := exec_bind_ok hx
        have hunits : ∀ h ∈ ({ scale := scale, offset := ((c.offsets.get? start' mid).getD (.int 0)), unit := mid } : Hop Rat) :: path,
            h.unit < c1.st.units.length := by
          intro h hh
          rcases List.mem_cons.1 hh with rfl | hh
          · exact f1.lt hmm
          · exact pu1 h hh
        obtain ⟨g2, f2, pu2, ps2, hlen2, po2⟩ := mapM_powHop_okN (n : Int) _ c1 c2 path2 g1 hunits h2
        have w2 := w1.frameN g1 f2
        have f12 := f1.trans f2
        obtain ⟨hPpos, W', hW', hnear'⟩ := ps1 hpne
        have hval : 0 < pathScale path2 ∧ ∃ W : Nat, W ≤ n * Gd c2.st start' * path2.length ∧
            Near lb ub W (pathScale path2 * unitSz σ c2.st stop' ^ n) (unitSz σ c2.st start' ^ n) := by
          rw [ps2, f12.sz hs, f12.sz ht, pathScale_cons, zpow_natCast, Gd_ext f12.ext hs]
          refine ⟨pow_pos (mul_pos hspos hPpos) n, (W' + 1) * n, ?_, ?_⟩
          · rw [hlen2]
            simp only [List.length_cons]
            have hG : Gd c.st mid = Gd c.st start' := Gd_of_dim hdm.symm
            rw [hG] at hW'
            have h1le := Gd_pos c.st start'
            calc (W' + 1) * n ≤ (Gd c.st start' * path.length + Gd c.st start') * n := by
                  apply Nat.mul_le_mul_right; omega
              _ = n * Gd c.st start' * (path.length + 1) := by ring
          · have hchain : Near lb ub (W' + 1) (scale.val * (pathScale path * unitSz σ c.st stop')) (unitSz σ c.st start') :=
              near_trans hb (near_scale scale.val (le_of_lt hspos) hnear') hmv
            have := near_pow hb hstart0 hchain n
            have heq : (scale.val * (pathScale path * unitSz σ c.st stop')) ^ n =
                (scale.val * pathScale path) ^ n * unitSz σ c.st stop' ^ n := by rw [← mul_pow]; ring_nf
            rw [heq] at this
            exact this
        have hd2 : c2.st.dimOfUnit start' = c.st.dimOfUnit start' := f12.ext.dimOfUnit hs
        have hoffs : OffRef s₀ Z c2.offsets → Z (c2.st.dimOfUnit start') → ∀ h ∈ path2, h.offset.val = 0 := by
          intro hoff hzd
          rw [f12.offsets] at hoff
          rw [hd2] at hzd
          apply po2 (by exact_mod_cast (Nat.pos_iff_ne_zero.1 hn))
          intro h hh
          rcases List.mem_cons.1 hh with rfl | hh
          · simp only [offref_none hoff he0 hzd, Option.getD_none]; rfl
          · exact po1 hoff (by rw [← hdm]; exact hzd) h hh
        have hpfx : (c2.st.unit! start').pfx = Pfx.identity ∧ (c2.st.unit! stop').pfx = Pfx.identity := by
          rw [f12.pfx hs, f12.pfx ht]
          refine ⟨hns, ?_⟩
          rcases pp1 hpne with h | h
          · exact h ▸ hnm
          · exact h.2
        have hrest2 : ∀ it ∈ rest, it ∈ c2.ratios.row start' := by rw [f2.ratios]; exact hrest1
        have hGd2 : Gd c2.st start' = Gd c.st start' := Gd_ext f12.ext hs
        by_cases hbetter : (best.isEmpty || decide (path2.length < best.length)) = true
        · simp only [hbetter, ↓reduceIte] at hx
          obtain ⟨g3, w3, f3, pu3, ps3, po3, pp3⟩ := ih path2 vis1 c2 c' p v' g2 w2 (he0.trans f12.ext) (f12.lt hs) (f12.lt ht) hrest2 pu2
            (fun _ => hval) hoffs (fun _ => hpfx) hx
          exact ⟨g3, w3, f12.trans f3, pu3, by rw [f12.sz hs, f12.sz ht, hGd2] at ps3; exact ps3,
            by rw [f12.offsets, hd2] at po3; exact po3, by rw [f12.pfx hs, f12.pfx ht] at pp3; exact pp3⟩
        · simp only [hbetter, Bool.false_eq_true, ↓reduceIte] at hx
          obtain ⟨g3, w3, f3, pu3, ps3, po3, pp3⟩ := ih best vis1 c2 c' p v' g2 w2 (he0.trans f12.ext) (f12.lt hs) (f12.lt ht) hrest2
            (fun h hh => f12.lt (hbu h hh)) (by rw [f12.sz hs, f12.sz ht, hGd2]; exact hbv)
            (by rw [f12.offsets, hd2]; exact hbo)
            (by rw [f12.pfx hs, f12.pfx ht]; exact hbp) hx
          exact ⟨g3, w3, f12.trans f3, pu3, by rw [f12.sz hs, f12.sz ht, hGd2] at ps3; exact ps3,
            by rw [f12.offsets, hd2] at po3; exact po3, by rw [f12.pfx hs, f12.pfx ht] at pp3; exact pp3⟩

theorem findPathRec_near {s₀ : St} {Z : Dim → Prop} (hZ : RootClosed Z) (hb : Bnd lb ub) (hσp : ∀ k, 0 < σ k) :
    ∀ fuel, RecurSpecN s₀ Z lb ub σ (findPathRec (α := Rat) fuel) := by
  intro fuel
  induction fuel with
  | zero =>
    intro a b v c c' p v' _ _ _ _ _ hx
    unfold findPathRec at hx
    rw [exec_throw] at hx; simp at hx
  | succ fuel ih =>
    intro start stop visited c c' p v' hg hw he0 hs ht hx
    unfold findPathRec at hx
    by_cases hse : (start == stop) = true
    · have hEq : start = stop := by simpa using hse
      simp only [hse, ↓reduceIte, exec_pure, Prod.mk.injEq, Except.ok.injEq] at hx
      obtain ⟨⟨rfl, rfl⟩, rfl⟩ := hx
      refine ⟨hg, hw, CFrame.refl _, ?_, ?_, ?_, fun _ => Or.inl hEq⟩
      · intro h hh; simp only [List.mem_singleton] at hh; subst hh; exact ht
      · intro _
        refine ⟨by simp [val_int], 0, Nat.zero_le _, ?_⟩
        simp only [pathScale_cons, pathScale_nil, val_int, Int.cast_one, mul_one, one_mul, hEq]
        exact near_refl _
      · intro _ _ h hh; simp only [List.mem_singleton] at hh; subst hh; rfl
    · simp only [hse, Bool.false_eq_true, ↓reduceIte] at hx
      by_cases hvis : visited.contains start = true
      · simp only [hvis, ↓reduceIte, exec_pure, Prod.mk.injEq, Except.ok.injEq] at hx
        obtain ⟨⟨rfl, rfl⟩, rfl⟩ := hx
        exact ⟨hg, hw, CFrame.refl _, by simp, by simp, by simp, by simp⟩
      · simp only [hvis, Bool.false_eq_true, ↓reduceIte] at hx
        obtain ⟨c0, c0', h0, hx⟩ := exec_bind_ok hx
        rw [exec_getThe'] at h0
        simp only [Prod.mk.injEq, Except.ok.injEq] at h0
        obtain ⟨rfl, rfl⟩ := h0
        by_cases hdir : (directEdge c start stop).isSome = true
        · simp only [hdir, ↓reduceIte, exec_pure, Prod.mk.injEq, Except.ok.injEq] at hx
          obtain ⟨⟨rfl, rfl⟩, rfl⟩ := hx
          unfold directEdge at hdir ⊢
          cases hget : c.ratios.get? start stop with
          | none => rw [hget] at hdir; simp at hdir
          | some scale =>
            have hmem := Table.get?_some_mem hget
            obtain ⟨_, _, hpos, hv⟩ := hg.edges start stop scale hmem
            obtain ⟨hn1, hn2⟩ := hg.nodes start stop scale hmem
            simp only [Option.map_some, Option.toList_some]
            refine ⟨hg, hw, CFrame.refl _, ?_, ?_, ?_, fun _ => Or.inr ⟨hn1, hn2⟩⟩
            · intro h hh; simp only [List.mem_singleton] at hh; subst hh; exact ht
            · intro _
              simp only [pathScale_cons, pathScale_nil, mul_one, List.length_singleton, Nat.mul_one]
              exact ⟨hpos, 1, Gd_pos _ _, hv⟩
            · intro hoff hzd h hh
              simp only [List.mem_singleton] at hh; subst hh
              simp only [offref_none hoff he0 hzd, Option.getD_none]; rfl
        simp only [hdir, Bool.false_eq_true, ↓reduceIte] at hx
        obtain ⟨⟨e, start', stop'⟩, c1, h1, hx⟩ := exec_bind_ok hx
        obtain ⟨g1, f1, hs', ht', zs, zt, _, psx, ptx⟩ := reduceDimension_okN hg hs ht h1
        have w1 := hw.frameN hg f1
        have hGle := reduceDimension_G hg.inv hs f1.ext h1 hs'
        -- the exponent is a positive natural number
        have hepos : 0 < e := by
          rcases reduceDimension_cases h1 with ⟨rfl, _, _⟩ | ⟨rfl, hgz, _, _⟩
          · decide
          · exact_mod_cast Nat.pos_of_ne_zero hgz
        obtain ⟨n, rfl⟩ : ∃ n : Nat, e = (n : Int) := ⟨e.toNat, (Int.toNat_of_nonneg (le_of_lt hepos)).symm⟩
        have hn : 0 < n := by exact_mod_cast hepos
        simp only [Int.toNat_natCast] at hGle
        simp only at hx
        obtain ⟨c1a, c1b, h2, hx⟩ := exec_bind_ok hx
        rw [exec_getThe'] at h2
        simp only [Prod.mk.injEq, Except.ok.injEq] at h2
        obtain ⟨rfl, rfl⟩ := h2
        obtain ⟨g2, w2, f2, pu2, ps2, po2, pp2⟩ := pathLoop_near hb hσp ih start' stop' n hn (c1.ratios.row start') []
          (visited ++ [start]) c1 c' p v' g1 w1 (he0.trans f1.ext) hs' ht' (fun _ h => h) (by simp) (by simp) (by simp) (by simp) hx
        -- the dimension of the reduced start is a root of the dimension of the start
        have hZ' : Z (c.st.dimOfUnit start) → Z (c1.st.dimOfUnit start') := by
          intro hz
          rcases reduceDimension_cases h1 with ⟨_, rfl, _⟩ | ⟨_, hgz, hr, hext2⟩
          · rw [f1.ext.dimOfUnit hs]; exact hz
          · have hgne : ((c.st.dimOfUnit start).gcdAll : Int) ≠ 0 := by exact_mod_cast hgz
            have hd := rootUnit_dim hg.inv hs hgne hr
            have ha1 := rootUnit_lt hg.inv.1 start _ hr
            rw [hext2.dimOfUnit ha1]
            exact hZ _ _ _ hz hd
        refine ⟨g2, w2, f1.trans f2, pu2, ?_, fun hoff hz => po2 (by rw [f1.offsets]; exact hoff) (hZ' hz),
          fun hp => Or.inr ⟨psx (pp2 hp).1, ptx (pp2 hp).2⟩⟩
        intro hp
        obtain ⟨hpos, W, hW, hnear⟩ := ps2 hp
        rw [zpow_natCast] at zs zt
        rw [zs, zt] at hnear
        refine ⟨hpos, W, ?_, hnear⟩
        calc W ≤ n * Gd c1.st start' * p.length := hW
          _ ≤ Gd c.st start * p.length := Nat.mul_le_mul_right _ hGle

/-- **The path search on an approximately consistent graph** (the shipped one): whatever non-empty path
    it returns multiplies to `size start / size stop` up to `W` factors in `[lb, ub]`, with
    `W ≤ max(1, gcd of start's dimension exponents) · (number of hops)`. -/
theorem findPath_near {s₀ : St} {Z : Dim → Prop} (hZ : RootClosed Z) (hb : Bnd lb ub) (hσp : ∀ k, 0 < σ k)
    {c c' : Conv Rat} {start stop : UId} {p : List (Hop Rat)}
    (hg : GraphNear lb ub σ c) (hw : GraphWF c) (he0 : Ext s₀ c.st) (hs : start < c.st.units.length) (ht : stop < c.st.units.length)
    (hx : CM.exec (findPath start stop) c = (.ok p, c')) :
    GraphNear lb ub σ c' ∧ GraphWF c' ∧ CFrame c c' ∧
      (p ≠ [] → 0 < pathScale p ∧ ∃ W : Nat, W ≤ Gd c.st start * p.length ∧
        Near lb ub W (pathScale p * unitSz σ c.st stop) (unitSz σ c.st start)) ∧
      (OffRef s₀ Z c.offsets → Z (c.st.dimOfUnit start) → ∀ h ∈ p, h.offset.val = 0) ∧
      (p ≠ [] → start = stop ∨ ((c.st.unit! start).pfx = Pfx.identity ∧ (c.st.unit! stop).pfx = Pfx.identity)) := by
  unfold findPath at hx
  obtain ⟨c0, c0', h0, hx⟩ := exec_bind_ok hx
  rw [exec_getThe'] at h0
  simp only [Prod.mk.injEq, Except.ok.injEq] at h0
  obtain ⟨rfl, rfl⟩ := h0
  obtain ⟨⟨p', v⟩, c1, h1, hx⟩ := exec_bind_ok hx
  rw [exec_pure] at hx
  simp only [Prod.mk.injEq, Except.ok.injEq] at hx
  obtain ⟨rfl, rfl⟩ := hx
  obtain ⟨g, w, f, _, ps, po, pp⟩ := findPathRec_near hZ hb hσp _ start stop [] c c1 p' v hg hw he0 hs ht h1
  exact ⟨g, w, f, ps, po, pp⟩

/-! ### `convert` through the directly found path, approximately -/

/-- **Every directly settled conversion on an approximately consistent graph is right up to the
    accumulated edge errors**: `result · size(target) = magnitude · X` with
    `lb^W · size(source) ≤ X ≤ ub^W · size(source)`, `W ≤ max(1, gcd) · hops`. -/
theorem convert_direct_near {Z : Dim → Prop} (hZ : RootClosed Z) (hb : Bnd lb ub) (hσp : ∀ k, 0 < σ k)
    {c c' : Conv Rat} {q r : Qty Rat} {t : UId}
    (hg : GraphNear lb ub σ c) (hw : GraphWF c) (hq : q.unit < c.st.units.length) (ht : t < c.st.units.length)
    (hoff : OffRef c.st Z c.offsets) (hzq : Z (c.st.dimOfUnit q.unit)) (h : CM.exec (convert q t) c = (.ok r, c')) :
    r.unit = t ∧
    ∃ (direct : List (Hop Rat)) (c2 : Conv Rat),
      CM.exec (findPath q.unit t)
        { c with st := ((c.st.unprefixedUnit q.unit).1.unprefixedUnit t).1 } = (.ok direct, c2) ∧
      (direct ≠ [] → ∃ (X : Rat) (W : Nat), r.mag.val * unitSz σ c.st t = q.mag.val * X ∧
        W ≤ Gd c.st q.unit * direct.length ∧ Near lb ub W X (unitSz σ c.st q.unit)) := by
  have hσ : ∀ k, σ k ≠ 0 := fun k => ne_of_gt (hσp k)
  obtain ⟨hu, plan, hp, hv⟩ := convert_ok h
  refine ⟨hu, ?_⟩
  obtain ⟨ga, fa⟩ := unprefixStepN hg hq
  have wa := hw.frameN hg fa
  have hqa := fa.lt hq
  have hta := fa.lt ht
  obtain ⟨gb, direct, c2, hfp, hplan⟩ := planConversion_directN ga hqa hta hp
  refine ⟨direct, c2, hfp, ?_⟩
  intro hne
  obtain ⟨head, hhead, rfl, rfl⟩ := hplan hne
  have fb : CFrame { c with st := (c.st.unprefixedUnit q.unit).1 }
      { c with st := ((c.st.unprefixedUnit q.unit).1.unprefixedUnit t).1 } := (unprefixStepN ga hta).2
  have wb := wa.frameN ga fb
  have fab := fa.trans fb
  obtain ⟨_, _, _, hps, hpo, hpp⟩ := findPath_near (s₀ := c.st) hZ hb hσp gb wb fab.ext (fab.lt hq) (fab.lt ht) hfp
  have hz := hpo hoff (by rw [fab.ext.dimOfUnit hq]; exact hzq)
  obtain ⟨_, W, hW, hnear⟩ := hps hne
  rw [fab.sz hq, fab.sz ht] at hnear
  rw [Gd_ext fab.ext hq] at hW
  have hpfxt : ((c.st.unprefixedUnit q.unit).1.unit! t).pfx = (c.st.unit! t).pfx := fa.pfx ht
  rw [hpfxt] at hhead
  have hpt : Pfx.val (c.st.unit! t).pfx ≠ 0 := ne_of_gt (Pfx.val_pos (canon_pfx hg.canon ht))
  have hval : r.mag.val = Pfx.val (c.st.unit! q.unit).pfx * q.mag.val * pathScale direct * (1 / Pfx.val (c.st.unit! t).pfx) := by
    rw [hv]
    simp only [List.map_cons, List.map_nil, PlanStep.toV, applyPlanV, val_int, Int.cast_one, mul_one]
    rw [applyPathV_offsetFree direct hz]
    simp only [applyPathV, Hop.toV, val_int, Int.cast_one, Int.cast_zero, zpow_one, mul_one, add_zero, hhead,
      Pfx.value_val]
  rcases hpp hne with heq | ⟨hp1, hp2⟩
  · -- the unit itself: the search returned the identity hop
    rw [← heq] at hfp
    rw [exec_findPath_self] at hfp
    simp only [Prod.mk.injEq, Except.ok.injEq] at hfp
    obtain ⟨rfl, _⟩ := hfp
    refine ⟨unitSz σ c.st q.unit, 0, ?_, Nat.zero_le _, near_refl _⟩
    rw [hval, ← heq]
    simp only [pathScale_cons, pathScale_nil, val_int, Int.cast_one, mul_one]
    have hpq : Pfx.val (c.st.unit! q.unit).pfx ≠ 0 := ne_of_gt (Pfx.val_pos (canon_pfx hg.canon hq))
    field_simp
  · rw [fab.pfx hq] at hp1
    rw [fab.pfx ht] at hp2
    refine ⟨pathScale direct * unitSz σ c.st t, W, ?_, hW, hnear⟩
    rw [hval, hp1, hp2, Pfx.val_identity]
    ring

/-! ### unit operations keep the approximate invariant -/

theorem units_graphNear {c : Conv Rat} (hg : GraphNear lb ub σ c) (ops : List Op) :
    GraphNear lb ub σ { c with st := run c.st ops } ∧ CFrame c { c with st := run c.st ops } := by
  have hf : CFrame c { c with st := run c.st ops } := frame_setSt c (run_ext _ _)
  have hgi : GInv c.st := ⟨hg.inv, hg.reg⟩
  have h2 := run_ginv hgi ops
  exact ⟨hg.frame hf (run_canon hgi hg.canon ops) h2.1 h2.2, hf⟩

theorem OffRef.ext {s₀ s : St} {Z : Dim → Prop} {offs : Table (Mag Rat)} (h : OffRef s₀ Z offs) (he : Ext s₀ s) :
    OffRef s Z offs := by
  intro a b m hg
  obtain ⟨ha, hn⟩ := h a b m hg
  exact ⟨Nat.lt_of_lt_of_le ha he.len, by rw [he.dimOfUnit ha]; exact hn⟩

/-- `convert_direct_near` after any public unit operations (`c₁` is the state they lead to) -/
theorem convert_direct_near_after {Z : Dim → Prop} (hZ : RootClosed Z) (hb : Bnd lb ub) (hσp : ∀ k, 0 < σ k)
    {c c₁ c' : Conv Rat} (ops : List Op) (hc₁ : c₁ = { c with st := run c.st ops }) {q r : Qty Rat} {t : UId}
    (hg : GraphNear lb ub σ c) (hw : GraphWF c) (hoff : OffRef c.st Z c.offsets)
    (hq : q.unit < c₁.st.units.length) (ht : t < c₁.st.units.length)
    (hzq : Z (c₁.st.dimOfUnit q.unit))
    (h : CM.exec (convert q t) c₁ = (.ok r, c')) :
    r.unit = t ∧
    ∃ (direct : List (Hop Rat)) (c2 : Conv Rat),
      CM.exec (findPath q.unit t)
        { c₁ with st := ((c₁.st.unprefixedUnit q.unit).1.unprefixedUnit t).1 } = (.ok direct, c2) ∧
      (direct ≠ [] → ∃ (X : Rat) (W : Nat), r.mag.val * unitSz σ c₁.st t = q.mag.val * X ∧
        W ≤ Gd c₁.st q.unit * direct.length ∧ Near lb ub W X (unitSz σ c₁.st q.unit)) := by
  obtain ⟨g, f⟩ := units_graphNear hg ops
  rw [← hc₁] at g f
  have hoff' : OffRef c₁.st Z c₁.offsets := by
    have := hoff.ext f.ext
    rw [f.offsets]; exact this
  exact convert_direct_near hZ hb hσp g (hw.frameN hg f) hq ht hoff' hzq h

end Measured
